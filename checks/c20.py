"""C20 - legacy {...} patterns render, read back and increase consistently."""
from __future__ import annotations

import ast
import typing as T

from sa import formats, relang as rl, shapes
from sa.boolfn import BF
from sa.model import AnalysisError, call_arg, const_str, unparse, walk_no_nested
from sa.pathcond import PathCond

TECHNIQUE = "regular-language inclusion of the legacy renderer's image in the (composed) legacy part regexes; full-match idiom check; constant-folded engine predicates on a finite witness set + monotonicity; path conditions in v1 incr"
EXPLANATION = (
    "(R1) For every legacy part the statement names, the language of what v1version.format_version can print for that "
    "part (format string from FULL_PART_FORMATS or the kwargs expression, over the value domain of its field, dates "
    "2000..2099) is included in the language of the part's regex (composites are composed from COMPOSITE_PART_PATTERNS), "
    "and Python's leftmost-alternative matching consumes every rendering; every recognisable part is renderable and mapped "
    "to a field.  (R2) The legacy parse accepts only a full-length match.  (R3) Every site that chooses an engine from a "
    "pattern string (test/update via incr_dispatch, the gate, the config loader, flag validation) classifies every legacy "
    "part placeholder as legacy, and the predicates are monotone in the pattern.  (R4) The legacy bump always takes "
    "lexid's successor of the build id, resets minor/patch as documented and refuses --tag-num."
)
LEVEL_NOTE = "Not decided: string ordering of {pycalver} chains (a property of lexid) and 1,000-bump chains. Sibling parts of the named ones are decided with them; eight deprecated short/padded forms (OUT_OF_SCOPE, one reason each) are observations only."

SCOPE = {"pycalver", "semver", "year", "month", "dom", "doy", "quarter", "build_no", "release", "MAJOR", "MINOR", "PATCH",
         "pep440_pycalver", "pep440_version", "calver", "build", "bid", "BID", "tag", "pep440_tag", "release_tag"}
# The statement names the parts above "style parts"; their siblings in the same tables are decided with them, except
# the forms below, which the statement does not name and which misbehave on the pinned tree only for values outside
# its quantifier (one/two-digit renderings of the *_short parts at the end of a pattern, build ids below 10^(n-1) for
# the B.. paddings).  They stay observations, one line each in the evidence.
OUT_OF_SCOPE = {
    "dom_short": "alternation order `[1-9]|[1-2][0-9]|..` reads '10' as '1' when nothing follows the part",
    "doy_short": "renders the unpadded day of year, the regex wants three digits",
    "BB": "regex wants a non-zero first digit, renderer zero-pads ids below 10", "BBB": "same, ids below 100", "BBBB": "same, ids below 1000",
    "BBBBB": "same, ids below 10^4", "BBBBBB": "same, ids below 10^5", "BBBBBBB": "same, ids below 10^6",
}
# the pinned legacy recognisers (non-composite parts); \d is read as ASCII digits for the lower bound and as any decimal digit for the upper
V1_PART_REF = {
    'year': '\\d{4}', 'month': '(?:0[0-9]|1[0-2])', 'month_short': '(?:1[0-2]|[1-9])', 'build_no': '\\d{4,}', 'pep440_tag': '(?:a|b|dev|rc|post)?\\d*',
    'tag': '(?:alpha|beta|dev|rc|post|final)', 'yy': '\\d{2}', 'yyyy': '\\d{4}', 'quarter': '[1-4]', 'iso_week': '(?:[0-4]\\d|5[0-3])', 'us_week': '(?:[0-4]\\d|5[0-3])',
    'dom': '(0[1-9]|[1-2][0-9]|3[0-1])', 'dom_short': '([1-9]|[1-2][0-9]|3[0-1])', 'doy': '(?:[0-2]\\d\\d|3[0-5][0-9]|36[0-6])', 'doy_short': '(?:[0-2]\\d\\d|3[0-5][0-9]|36[0-6])',
    'MAJOR': '\\d+', 'MINOR': '\\d+', 'MM': '\\d{2,}', 'MMM': '\\d{3,}', 'MMMM': '\\d{4,}', 'MMMMM': '\\d{5,}', 'PATCH': '\\d+', 'PP': '\\d{2,}', 'PPP': '\\d{3,}',
    'PPPP': '\\d{4,}', 'PPPPP': '\\d{5,}', 'bid': '\\d{4,}', 'BID': '[1-9]\\d*', 'BB': '[1-9]\\d{1,}', 'BBB': '[1-9]\\d{2,}', 'BBBB': '[1-9]\\d{3,}',
    'BBBBB': '[1-9]\\d{4,}', 'BBBBBB': '[1-9]\\d{5,}', 'BBBBBBB': '[1-9]\\d{6,}',
}
V1_PART_FIELDS = {'year': 'year', 'month': 'month', 'month_short': 'month', 'pep440_tag': 'tag', 'tag': 'tag', 'yy': 'year', 'yyyy': 'year', 'quarter': 'quarter',
                  'iso_week': 'iso_week', 'us_week': 'us_week', 'dom': 'dom', 'doy': 'doy', 'dom_short': 'dom', 'doy_short': 'doy', 'MAJOR': 'major', 'MINOR': 'minor',
                  'MM': 'minor', 'MMM': 'minor', 'MMMM': 'minor', 'MMMMM': 'minor', 'PP': 'patch', 'PPP': 'patch', 'PPPP': 'patch', 'PPPPP': 'patch', 'PATCH': 'patch',
                  'build_no': 'bid', 'bid': 'bid', 'BID': 'bid', 'BB': 'bid', 'BBB': 'bid', 'BBBB': 'bid', 'BBBBB': 'bid', 'BBBBBB': 'bid', 'BBBBBBB': 'bid'}
LEGACY_TAGS = ["alpha", "beta", "dev", "rc", "post", "final"]


def composed_regex(ctx, part: str, pats: T.Dict[str, str], comps: T.Dict[str, str], depth: int = 0) -> str:
    """Regex text of a legacy part with {x} placeholders of composites replaced by (?:regex(x))."""
    if part in comps:
        txt = comps[part]
        out = ""
        i = 0
        while i < len(txt):
            if txt[i] == "{":
                j = txt.index("}", i)
                name = txt[i + 1:j]
                if name in pats or name in comps:
                    ctx.require(depth < 4, "composite nesting too deep")
                    out += "(?:" + composed_regex(ctx, name, pats, comps, depth + 1) + ")"
                    i = j + 1
                    continue
            out += txt[i]
            i += 1
        return out
    ctx.require(part in pats, f"legacy part {part} has no regex")
    return pats[part]


def _tag_values_by_evaluation(ctx, fv, tag_keys: T.Sequence[str]) -> T.Optional[T.Dict[str, T.Set[str]]]:
    """What format_version puts under the tag-dependent names, read off its result for the pattern `{k1}|{k2}|...`, once per
    release tag.  None when the body is outside what the evaluator handles."""
    from sa.model import Abstract, CannotFold, EvalError
    prog = ctx.prog
    names = prog.klass("version.V1VersionInfo").fields

    class Rec(Abstract):
        def __init__(self, d: T.Dict[str, T.Any]):
            self.__dict__.update(d)
            self.__dict__["_d"] = dict(d)

        def _asdict(self) -> T.Dict[str, T.Any]:
            return dict(self._d)
    base = {n_: None for n_ in names}
    base.update({"year": 2021, "quarter": 1, "month": 3, "dom": 14, "doy": 73, "iso_week": 10, "us_week": 11, "major": 1, "minor": 22, "patch": 3, "bid": "1001"})
    out: T.Dict[str, T.Set[str]] = {k: set() for k in tag_keys}
    try:
        for tag in LEGACY_TAGS:
            got, _ys = prog.run_body(fv, {fv.params[0]: Rec(dict(base, tag=tag)), fv.params[1]: "|".join("{" + k + "}" for k in tag_keys), "__strict__": True})
            if not isinstance(got, str) or got.count("|") != len(tag_keys) - 1:
                return None
            for k, v in zip(tag_keys, got.split("|")):
                out[k].add(v)
                out.setdefault("@" + tag, {})[k] = v          # type: ignore[index]
    except (CannotFold, EvalError, TypeError, AttributeError, KeyError, ValueError, IndexError):
        return None
    return out


def kwargs_model(ctx, fv) -> T.Dict[str, T.Callable[[], rl.R]]:
    """Images of the names format_version makes available to str.format, from its assignments."""
    prog = ctx.prog
    cal = formats.calendar_domains(prog, "v1version.cal_info", (2000, 2099))
    ctx.visit("v1version.cal_info")
    t2p = prog.const("version", "PEP440_TAG_BY_TAG")
    nonfinal = [t for t in LEGACY_TAGS if t != "final"]
    model: T.Dict[str, T.Any] = {}
    for f, (dom, _prov) in cal.items():
        model[f] = ("ints", dom)
    for f in ("major", "minor", "patch"):
        model[f] = ("ints", ("nat", 0))
    model["bid"] = ("digits", ("digits", 4, True))
    model["tag"] = ("strs", LEGACY_TAGS)
    # assignments  kwargs['k'] = <expr>
    fmt_calls = [c for c in ast.walk(fv.node) if isinstance(c, ast.Call) and isinstance(c.func, ast.Attribute) and c.func.attr == "format"
                 and any(kw.arg is None for kw in c.keywords)]
    ctx.require(len(fmt_calls) == 1, "format_version (v1): `<pattern>.format(**kwargs)` not found")
    kwvar = unparse([kw.value for kw in fmt_calls[0].keywords if kw.arg is None][0])
    assigns: T.Dict[str, T.List[ast.AST]] = {}
    for n in walk_no_nested(fv.node):
        if isinstance(n, ast.Assign) and isinstance(n.targets[0], ast.Subscript) and unparse(n.targets[0].value) == kwvar:
            k = const_str(n.targets[0].slice)
            if k is not None:
                assigns.setdefault(k, []).append(n.value)
    tagvar = None
    for n in walk_no_nested(fv.node):
        if isinstance(n, ast.Assign) and isinstance(n.targets[0], ast.Name) and unparse(n.value) == f"{fv.params[0]}.tag":
            tagvar = n.targets[0].id
    ctx.require(tagvar is not None, "format_version (v1): release tag variable not found")

    def concat(e: ast.AST, tag: str) -> str:
        if isinstance(e, ast.Constant) and isinstance(e.value, str):
            return e.value
        if isinstance(e, ast.Name) and e.id == tagvar:
            return tag
        if isinstance(e, ast.Subscript) and unparse(e.value).endswith("PEP440_TAG_BY_TAG") and unparse(e.slice) == tagvar:
            return t2p[tag]
        if isinstance(e, ast.BinOp) and isinstance(e.op, ast.Add):
            return concat(e.left, tag) + concat(e.right, tag)
        raise AnalysisError(f"C20/R1: kwargs expression not enumerated: {unparse(e)}")

    def strs_of(exprs: T.List[ast.AST]) -> T.List[str]:
        # the function assigns one expression under `tag == 'final'` and another otherwise; constants are the
        # final-branch values, expressions mentioning the tag are evaluated for every non-final tag
        out: T.Set[str] = set()
        for e in exprs:
            mentions_tag = any((isinstance(x, ast.Name) and x.id == tagvar) for x in ast.walk(e))
            if not mentions_tag:
                out.add(concat(e, "final"))
            elif isinstance(e, ast.Name):
                out |= set(LEGACY_TAGS)
            else:
                out |= {concat(e, t) for t in nonfinal}
        return sorted(out)

    # the tag-dependent entries: constant propagation through the statements that compute them, once per release tag
    tag_keys = ("release", "pep440_tag", "release_tag")
    for k in tag_keys:
        ctx.require(k in assigns, f"format_version (v1) no longer assigns kwargs['{k}']")
    def _touches(st: ast.stmt) -> bool:
        return any(isinstance(x, ast.Subscript) and unparse(x.value) == kwvar and const_str(x.slice) in tag_keys and isinstance(x.ctx, ast.Store) for x in ast.walk(st))
    block = [st for st in fv.node.body if _touches(st)]
    by_prop: T.Dict[str, T.Set[str]] = {k: set() for k in tag_keys}
    evaluated = _tag_values_by_evaluation(ctx, fv, tag_keys)
    if evaluated is not None:
        for k in tag_keys:
            model[k] = ("strs", sorted(evaluated[k]))
        block = []
        # a final release carries no suffix: in `{BID}{pep440_tag}` / `{bid}{release}` anything rendered for `final` is read as
        # part of the build number (or fails to match)
        fin = evaluated.get("@final", {})          # type: ignore[call-overload]
        for k in ("release", "pep440_tag"):
            ctx.check("R1", fin.get(k) == "", f"v1 renderer: a final release renders an empty {{{k}}}",
                      "v1version.format_version: a final release is rendered with a tag suffix",
                      f"{{{k}}} is {fin.get(k)!r} for tag 'final': `v201801.0034` is written as `201801.34{fin.get(k)}` for {{pep440_version}}, which reads back as another build number",
                      loc=fv.loc(), witness={"version": "v201801.0034", "pattern": "{pep440_version}"})
    try:
        if evaluated is not None:
            raise StopIteration
        for tag in LEGACY_TAGS:
            env_: T.Dict[str, T.Any] = {tagvar: tag, kwvar: {}}
            ctx.prog._propagate(fv.module, block, env_, fv.fq)
            for k in tag_keys:
                ctx.require(k in env_[kwvar] and isinstance(env_[kwvar][k], str), f"format_version (v1): kwargs['{k}'] is not a string for tag {tag}")
                by_prop[k].add(env_[kwvar][k])
        for k in tag_keys:
            model[k] = ("strs", sorted(by_prop[k]))
    except StopIteration:
        pass
    except AnalysisError:
        for k in tag_keys:
            model[k] = ("strs", strs_of(assigns[k]))
    ctx.require("yy" in assigns and len(assigns["yy"]) == 1, "kwargs['yy'] is not assigned exactly once")
    yy = unparse(shapes.inline(fv, assigns["yy"][0], ctx.prog)).replace(f"{fv.params[0]}.year", "year")
    if yy in ("str(year)[-2:]", "str(year % 100).zfill(2)", "'%02d' % (year % 100)", "'{:02}'.format(year % 100)", "f'{year % 100:02}'", "f'{year % 100:02d}'"):
        model["yy"] = ("strs", sorted({str(y)[-2:] for y in range(2000, 2100)}))
    elif yy in ("year % 100", "year - 2000", "int(str(year)[-2:])"):
        model["yy"] = ("ints", ("ints", 0, 99))         # a number: rendered by the part's format spec, without a leading zero unless that pads
    elif yy in ("str(year % 100)", "str(year - 2000)"):
        model["yy"] = ("strs", sorted({str(y % 100) for y in range(2000, 2100)}))
    else:
        # any other constant expression over the year: folded for every year of the quantifier
        vals_ = []
        for y_ in range(2000, 2100):
            try:
                vals_.append(ctx.prog.fold(fv.module, assigns["yy"][0], {"year": y_, fv.params[0]: None}))
            except AnalysisError:
                raise AnalysisError(f"C20: kwargs['yy'] expression not enumerated: `{yy}`")
        if all(isinstance(v_, str) for v_ in vals_):
            model["yy"] = ("strs", sorted(set(vals_)))
        elif all(isinstance(v_, int) and not isinstance(v_, bool) for v_ in vals_):
            model["yy"] = ("strs", sorted({str(v_) for v_ in vals_}))
        else:
            raise AnalysisError(f"C20: kwargs['yy'] expression has mixed types: `{yy}`")
    ctx.require("yyyy" in assigns and unparse(assigns["yyyy"][0]) in ("year", f"{fv.params[0]}.year"), "kwargs['yyyy'] shape changed")
    model["yyyy"] = ("ints", ("ints", 2000, 2099))
    ctx.require("BID" in assigns and unparse(assigns["BID"][0]).startswith("int("), "kwargs['BID'] shape changed")
    model["BID"] = ("canon", ("digits", 4, True))
    ids = prog.const("v1version", "ID_FIELDS_BY_PART")
    loop_ok = any(isinstance(n, ast.For) and "ID_FIELDS_BY_PART.items()" in unparse(n.iter) and ".zfill(" in unparse(n) for n in walk_no_nested(fv.node))
    ctx.require(loop_ok, "format_version (v1): ID_FIELDS_BY_PART zfill loop not found")
    for part, field in ids.items():
        if part.lower() == field.lower():
            model[part] = ("canon", model[field][1]) if field == "bid" else ("ints", ("nat", 0))
        else:
            model[part] = ("zfill", (model[field], len(part)))
    return model


def image_of_field(model: T.Dict[str, T.Any], name: str, spec: str) -> rl.R:
    if name not in model:
        raise KeyError(name)
    kind, dom = model[name]
    pad = 0
    if spec:
        p = formats._pad_of_spec(spec)
        if p is None:
            raise AnalysisError(f"format spec {spec!r} not modelled")
        pad = p
    if kind == "ints":
        return formats.image(formats.Desc(canon=True, pad=pad), dom)
    if kind == "digits":
        return formats.image(formats.Desc(pad=pad), dom)
    if kind == "canon":
        return formats.image(formats.Desc(canon=True, pad=pad), dom)
    if kind == "strs":
        if pad:
            raise AnalysisError("numeric spec on string value")
        return rl.alt_of_strings(dom)
    if kind == "zfill":
        (k2, d2), width = dom
        if k2 == "digits":
            return formats.image(formats.Desc(pad=width), d2)
        return formats.image(formats.Desc(canon=True, pad=width), d2)
    raise AnalysisError(f"model kind {kind}")


# the version patterns for which the pinned tree maps {pep440_version} (v1patterns._normalized_pattern; each is used by the
# suite's fixtures or the legacy documentation); a pattern may be added, none of these may lose its mapping
LEGACY_VERSION_PATTERNS_WITH_PEP440 = ("{pycalver}", "{semver}", "v{year}{month}{build}{release}", "{year}{month}{build}{release}",
                                       "v{year}{build}{release}", "{year}{build}{release}")


def v1_render_eval(ctx, rule: str, parts: T.List[str]) -> None:
    """v1version.format_version evaluated on the pattern `{part}` for every part the legacy recogniser knows, with a fully
    populated version record: it returns a text (no placeholder is left without a value)."""
    from sa.model import Abstract, CannotFold, EvalError
    prog = ctx.prog
    fv = prog.function("v1version.format_version")
    names = prog.klass("version.V1VersionInfo").fields

    class Rec(Abstract):
        def __init__(self, d: T.Dict[str, T.Any]):
            self.__dict__.update(d)
            self.__dict__["_d"] = dict(d)

        def _asdict(self) -> T.Dict[str, T.Any]:
            return dict(self._d)
    base = {n_: None for n_ in names}
    base.update({"year": 2021, "quarter": 1, "month": 3, "dom": 14, "doy": 73, "iso_week": 10, "us_week": 11, "major": 1, "minor": 22, "patch": 3, "bid": "1001", "tag": "beta"})
    wrong: T.List[str] = []
    n = 0
    try:
        for part in parts:
            try:
                got, _ys = prog.run_body(fv, {fv.params[0]: Rec(base), fv.params[1]: "{" + part + "}", "__strict__": True})
            except EvalError as ex:
                got = None
                if len(wrong) < 4:
                    wrong.append(f"{{{part}}}: {ex}")
            n += 1
            if got is not None and not isinstance(got, str) and len(wrong) < 4:
                wrong.append(f"{{{part}}}: returns {got!r}")
    except (CannotFold, TypeError, AttributeError, KeyError, ValueError, IndexError) as ex:
        ctx.observe(f"{fv.fq} not evaluated ({type(ex).__name__}: {str(ex)[:80]})")
        return
    ctx.check(rule, not wrong, f"v1 renderer: format_version gives a text for each of the {n} recognised legacy parts",
              "v1version.format_version: a recognised legacy part cannot be rendered", "; ".join(wrong[:3]) + ": every bump of a pattern with that part ends in a traceback",
              loc=fv.loc(), witness={"pattern": "v{year}." + (wrong[0].split(":")[0] if wrong else "")})


def v1_reader_eval(ctx, rule: str) -> None:
    """v1version._parse_field_values evaluated (dates from the standard library) on captured group dicts: every field of the
    result is the captured value (numbers as int, two-digit years expanded, the short tag as its long form), month / day of the
    month follow from year + day of year, day of year and both week numbers from year + month + day (Monday-based week as
    iso_week, Sunday-based as us_week), the quarter from the month when it was not captured."""
    import datetime as _dt
    from sa.model import Abstract, CannotFold, EvalError, Raised
    prog = ctx.prog
    fn = prog.function("v1version._parse_field_values")
    ctx.visit(fn.fq)
    fields = prog.klass("version.V1VersionInfo").fields
    p2t = prog.const("version", "TAG_BY_PEP440_TAG")

    class D(Abstract):
        def __init__(self, d: "_dt.date"):
            self.d, self.year, self.month, self.day = d, d.year, d.month, d.day

        def strftime(self, fmt: str) -> str:
            return self.d.strftime(fmt)

    def mk_date(f: T.Any, node: ast.Call) -> D:
        args = [f(a) for a in node.args]
        try:
            return D(_dt.date(*args, **{k.arg: f(k.value) for k in node.keywords}))
        except (ValueError, TypeError) as ex:
            raise Raised(type(ex).__name__, message=str(ex))

    def from_doy(f: T.Any, node: ast.Call) -> D:
        y, n = [f(a) for a in node.args]
        return D(_dt.date(y, 1, 1) + _dt.timedelta(days=n - 1))

    def ctor(f: T.Any, node: ast.Call) -> T.Dict[str, T.Any]:
        d = dict(zip(fields, [f(a) for a in node.args]))
        d.update({k.arg: f(k.value) for k in node.keywords if k.arg})
        return d
    stubs = {"dt.date": mk_date, "datetime.date": mk_date, "version.date_from_doy": from_doy, "version.V1VersionInfo": ctor,
             "version.quarter_from_month": lambda f, node: (f(node.args[0]) - 1) // 3 + 1}
    cases = [{"year": "2021", "month": "01", "dom": "10", "bid": "1001", "tag": "b"}, {"year": "2021", "month": "03", "dom": "14", "bid": "0033"},
             {"year": "21", "doy": "045", "bid": "1002", "tag": "rc"}, {"major": "1", "minor": "22", "patch": "3", "tag": "final"}, {"year": "2020", "quarter": "4", "bid": "1001"},
             {"year": "2024", "month": "12", "dom": "31", "bid": "9999", "tag": "post"}, {"year": "2021", "month": "02", "dom": "30", "bid": "1001"}, {"bid": "1001"}]

    def reference(g: T.Dict[str, str]) -> T.Any:
        year = int(g["year"]) if "year" in g else None
        if year is not None and year < 100:
            year += 2000
        doy = int(g["doy"]) if "doy" in g else None
        month = int(g["month"]) if "month" in g else None
        dom = int(g["dom"]) if "dom" in g else None
        if year and doy:
            d0 = _dt.date(year, 1, 1) + _dt.timedelta(days=doy - 1)
            month, dom = d0.month, d0.day
        wk_m = wk_s = None
        if year and month and dom:
            try:
                d1 = _dt.date(year, month, dom)
            except ValueError:
                return "raises PatternError"
            doy, wk_m, wk_s = int(d1.strftime("%j")), int(d1.strftime("%W")), int(d1.strftime("%U"))
        quarter = int(g["quarter"]) if "quarter" in g else ((month - 1) // 3 + 1 if month else None)
        tag = g.get("tag") or "final"
        return {"year": year, "quarter": quarter, "month": month, "dom": dom, "doy": doy, "iso_week": wk_m, "us_week": wk_s,
                "major": int(g.get("major", 0)), "minor": int(g.get("minor", 0)), "patch": int(g.get("patch", 0)), "bid": g.get("bid", "0001"), "tag": p2t.get(tag, tag)}
    wrong: T.List[str] = []
    n = 0
    try:
        for g in cases:
            try:
                got, _ys = prog.run_body(fn, {fn.params[0]: dict(g), "__strict__": True, "__stubs__": stubs})
            except Raised as ex:
                got = f"raises {ex.name}"
            except EvalError as ex:
                got = f"raises {getattr(ex, 'raised', None) or ex}".replace("version.", "")
            want = reference(g)
            n += 1
            if isinstance(want, dict) and isinstance(got, dict):
                diff = {k: (got.get(k), v) for k, v in want.items() if k in fields and got.get(k) != v}
                if diff and len(wrong) < 3:
                    wrong.append(f"groups {g}: " + ", ".join(f"{k} = {a!r} (expected {b!r})" for k, (a, b) in sorted(diff.items())))
            elif got != want and len(wrong) < 3:
                wrong.append(f"groups {g}: {got if not isinstance(got, dict) else 'a version'} (expected {want if not isinstance(want, dict) else 'a version'})")
    except (CannotFold, TypeError, AttributeError, KeyError, ValueError, IndexError) as ex:
        ctx.observe(f"{fn.fq} not evaluated ({type(ex).__name__}: {str(ex)[:80]})")
        return
    ctx.check(rule, not wrong, f"v1 reader: every field of the parsed version is the captured / derived value ({n} group dicts evaluated, Sunday 2021-01-10 and 30 February among them)",
              "v1version._parse_field_values: a field of the parsed legacy version is not the value that was captured (or derived from the captured date)",
              "; ".join(wrong[:2]) + ": the version does not read back with the same parts; files are rewritten from the re-parsed version", loc=fn.loc(),
              witness={"pattern": "v{year}{month}{dom}w{us_week}", "version": "v20210110w02"})


def run(ctx) -> None:
    prog, cfgs = ctx.prog, ctx.cfgs
    ctx.rule("R1", "for each named legacy part: Image(renderer) ⊆ L(regex), ordered choice consumes the rendering; parts are renderable and mapped to fields")
    ctx.rule("R2", "legacy parse_version_info accepts only a full-length match")
    ctx.rule("R3", "every engine predicate classifies every legacy placeholder as legacy and is monotone")
    ctx.rule("R4", "legacy bump: lexid successor always, documented resets, --tag-num refused")
    ctx.rule("R5", "prerequisite: files rewritten with legacy patterns carry every occurrence (C03/R1-R4, findings about the legacy engine and the shared modules only)")
    from sa.report import run_prerequisite
    run_prerequisite(ctx, "C03", ("R1", "R2", "R3", "R4"), "R5", only=lambda key: not key.startswith(("v2rewrite.", "v2version.", "v2patterns.")))
    ctx.rule("R6", "prerequisite: 'strictly greater' is decided by the comparator's order laws, legacy keys included (C16/R1-R4, R8)")
    run_prerequisite(ctx, "C16", ("R1", "R2", "R3", "R4", "R8", "R9"), "R6")

    pats_node = prog.const_node("v1patterns", "PART_PATTERNS")
    pats = prog.fold(prog.module("v1patterns"), pats_node)
    comps = prog.const("v1patterns", "COMPOSITE_PART_PATTERNS")
    # v1patterns calls _init_composite_patterns() at import time, which adds the composite keys to
    # PART_PATTERNS; the effective table (used by cli.incr_dispatch) is the display plus those keys.
    v1mod = prog.module("v1patterns")
    init_called = any(isinstance(st, ast.Expr) and isinstance(st.value, ast.Call) and unparse(st.value.func) == "_init_composite_patterns" for st in v1mod.tree.body)
    ctx.require(init_called, "v1patterns no longer calls _init_composite_patterns() at module level")
    effective = dict(pats)
    for k in comps:
        effective.setdefault(k, "<composed>")
    prog._fold_cache[("v1patterns", "PART_PATTERNS")] = effective
    full = prog.const("v1patterns", "FULL_PART_FORMATS")
    pfields = prog.const("v1patterns", "PATTERN_PART_FIELDS")
    # composition step is the one modelled
    ic = prog.function("v1patterns._init_composite_patterns")
    lps = [n for n in walk_no_nested(ic.node) if isinstance(n, ast.For) and unparse(n.iter) == "COMPOSITE_PART_PATTERNS.items()"]
    ok = len(lps) == 1 and isinstance(lps[0].target, ast.Tuple) and len(lps[0].target.elts) == 2
    if ok:
        kvar = unparse(lps[0].target.elts[0])
        sts = [n for n in ast.walk(lps[0]) if isinstance(n, ast.Assign) and unparse(n.targets[0]) == f"PART_PATTERNS[{kvar}]"]
        ok = len(sts) == 1 and shapes.flows_from(ic, sts[0].value, lambda e: isinstance(e, ast.Call) and unparse(e.func) == "_replace_pattern_parts")
        esc = [c for c in ast.walk(lps[0]) if isinstance(c, ast.Call) and isinstance(c.func, ast.Attribute) and c.func.attr == "replace" and len(c.args) == 2
               and const_str(c.args[0]) in ("{", "}") and const_str(c.args[1]) == "\\" + const_str(c.args[0])]
        ok = ok and len(esc) == 2
    ctx.require(ok, "v1patterns._init_composite_patterns: composition step changed (the composed-regex model is not applicable)")
    rp = prog.function("v1patterns._replace_pattern_parts")
    ok = "(?P<{part_name}>{part_pattern})" in unparse(rp.node)
    ctx.require(ok, "v1patterns._replace_pattern_parts: named group shape changed (model not applicable)")
    # ... for every entry of the table (evaluated with a three-entry table: first, middle and last placeholder are all expanded)
    from sa.model import CannotFold as _CF, EvalError as _EE
    try:
        tab3 = {"first": "A+", "mid": "B+", "last": "C+"}
        got3, _ys3 = prog.run_body(rp, {rp.params[0]: "\\{first\\}-\\{mid\\}-\\{last\\}-\\{other\\}", "PART_PATTERNS": dict(tab3), "__strict__": True})
        want3 = "(?P<first>A+)-(?P<mid>B+)-(?P<last>C+)-\\{other\\}"
        ctx.check("R1", got3 == want3, "_replace_pattern_parts expands the placeholder of every table entry (first, middle and last of a three-entry table)",
                  "v1patterns._replace_pattern_parts: a placeholder of the part table is not expanded to its named group",
                  f"{got3!r}, expected {want3!r}: the part added to the table last (the composite search patterns) stays literal text and never matches", loc=rp.loc(),
                  witness={"file pattern": "{pep440_version}"})
    except (_CF, _EE, TypeError, KeyError, AttributeError) as ex3:
        ctx.observe(f"_replace_pattern_parts not evaluated ({type(ex3).__name__}: {str(ex3)[:60]})")

    fv = prog.function("v1version.format_version")
    ctx.visit(fv.fq)
    model = kwargs_model(ctx, fv)
    # format_version replaces {p} by FULL_PART_FORMATS[p] and then str.format(**kwargs)
    src = unparse(fv.node)
    ok = "FULL_PART_FORMATS.items()" in src and ".format(**" in src
    ctx.require(ok, "v1version.format_version: rendering pipeline changed (FULL_PART_FORMATS expansion + str.format model not applicable)")

    all_parts = sorted(set(pats) | set(comps))
    ctx.floor("R1", "legacy parts", len(all_parts), 40)
    v1_render_eval(ctx, "R1", all_parts)
    n_scope = 0
    for part in all_parts:
        tmpl = full.get(part, "{" + part + "}")
        in_scope = part in SCOPE or part not in OUT_OF_SCOPE
        try:
            segs = formats.parse_format(tmpl)
            pieces: T.List[rl.R] = []
            for lit, field, spec in segs:
                if lit:
                    pieces.append(rl.lit(lit))
                if field is not None:
                    pieces.append(image_of_field(model, field, spec))
            img = rl.Cat(pieces) if pieces else rl.Eps()
        except KeyError as ex:
            msg = f"legacy part '{part}' is recognised but cannot be rendered: no format entry and no kwargs value for {ex}"
            # (also for the parts whose read-back quirks are out of scope: a part that the recogniser accepts and the
            # renderer does not know at all ends every bump of such a pattern in a KeyError)
            ctx.bad("R1", f"v1: part '{part}' is not renderable", msg, loc="src/bumpver/v1patterns.py")
            continue
        rx_txt = composed_regex(ctx, part, pats, comps)
        rx = rl.from_regex(rx_txt)
        w = rl.included(img, rx)
        # ordered choice on samples
        samples, _c = rl.enumerate_language(img, max_len=8, limit=600)
        d = rl.to_dfa(rx)
        trunc = [s for s in samples[:600] if s and d.accepts(s) and rl.python_prefix_match_end(rx_txt, s) != len(s)]
        what = f"legacy part {{{part}}}: Image({tmpl!r}) ⊆ L({rx_txt!r}) and is consumed completely"
        if w is None and not trunc:
            if in_scope:
                n_scope += 1
                ctx.ok("R1", what)
            continue
        if w is not None:
            msg = f"the legacy renderer prints {w!r} for part {{{part}}} ({tmpl!r}) but its regex {rx_txt!r} does not accept it"
        else:
            msg = f"for rendering {trunc[0]!r} of part {{{part}}} the regex {rx_txt!r} stops after {rl.python_prefix_match_end(rx_txt, trunc[0])} characters (alternation order)"
        if in_scope:
            n_scope += 1
            ctx.bad("R1", f"v1: part '{part}' renders text its own regex does not read back", msg, loc="src/bumpver/v1patterns.py", witness=w if w is not None else trunc[0], what=what)
        else:
            ctx.observe(f"(outside the statement's parts) {msg}")
    ctx.floor("R1", "named legacy parts checked", n_scope, 19)
    # mapped to a field / read back
    pfv = prog.function("v1version._parse_field_values")
    read = {const_str(n.slice) for n in ast.walk(pfv.node) if isinstance(n, ast.Subscript) and const_str(n.slice)}
    read |= {const_str(n.args[0]) for n in ast.walk(pfv.node) if isinstance(n, ast.Call) and isinstance(n.func, ast.Attribute) and n.func.attr == "get" and n.args and const_str(n.args[0])}
    for part in sorted(SCOPE & set(pats) - set(comps)):
        f = pfields.get(part)
        if part in ("release_tag",):
            continue
        ctx.check("R1", f is not None and f in read, f"legacy part {{{part}}} -> field '{f}' which the parser reads", f"v1: part '{part}' is not mapped to a field that is read back",
                  f"field={f}, read={sorted(x for x in read if x)}", loc="src/bumpver/v1patterns.py")

    # siblings of the named parts in the same tables (padded widths, *_short forms): three table rules that hold for every part
    # (a) reader field of each part as on the pinned tree (a part may be added; none of these may be read into another field)
    for part, want_f in sorted(V1_PART_FIELDS.items()):
        ctx.check("R1", pfields.get(part) == want_f, f"legacy part {{{part}}} is read into field '{want_f}'", f"v1patterns.PATTERN_PART_FIELDS['{part}']: the part is read into another field",
                  f"'{part}' -> {pfields.get(part)!r}, pinned: {want_f!r}: what was rendered from {want_f} is read back as {pfields.get(part)}", loc="src/bumpver/v1patterns.py",
                  witness={"part": part})
    # (b) a padded-width part (one letter k times) recognises at least k digits
    n_pad = 0
    for part in sorted(pats):
        if len(part) >= 2 and len(set(part)) == 1 and part.isalpha():
            n_pad += 1
            shortest = rl.shortest_length(rl.from_regex(pats[part]))
            ctx.check("R1", shortest == len(part), f"legacy part {{{part}}}: the shortest recognised text has {len(part)} digits", f"v1patterns.PART_PATTERNS['{part}']: padded width disagrees with the part's name",
                      f"`{pats[part]}` recognises texts of length >= {shortest}, the part is rendered zero-padded to {len(part)}: a rendered value of exactly {len(part)} digits "
                      f"{'is not read back' if shortest is None or shortest > len(part) else 'is read back by a narrower sibling pattern too'}", loc="src/bumpver/v1patterns.py", witness={"part": part})
    ctx.floor("R1", "padded-width legacy parts", n_pad, 14)
    # (c) a part rendered from a single field is read back into that same field
    for part, tmpl in sorted(full.items()):
        try:
            segs = formats.parse_format(tmpl)
        except Exception:
            continue
        flds = [f_ for _l, f_, _s in segs if f_ is not None]
        if len(flds) == 1 and not any(l_ for l_, _f, _s in segs) and part in pfields and flds[0] in set(pfields.values()):
            ctx.check("R1", flds[0] == pfields[part], f"legacy part {{{part}}} renders field '{flds[0]}', the field it is read into",
                      f"v1patterns.FULL_PART_FORMATS['{part}']: the part renders another field than it is read into",
                      f"renders {tmpl!r}, read into '{pfields[part]}': e.g. {{dom_short}} prints the day of the year", loc="src/bumpver/v1patterns.py", witness={"part": part})

    # the pinned calendar is the parsed calendar, field by field (v1 _ver_to_cal_info is positional)
    inc1 = prog.function("v1version.incr")
    pin = shapes.pinned_calendar_ctor(prog, inc1, "V1CalendarInfo")
    ctx.require(pin is not None, "v1 incr: the place where the parsed calendar is rebuilt for --pin-date was not found")
    vc, ctor0, pin_src = pin
    ctx.visit(vc.fq)
    ctor = [ctor0]
    cal_fields = prog.klass("version.V1CalendarInfo").fields
    args = dict(zip(cal_fields, ctor[0].args))
    args.update(shapes.kwargs_of(ctor[0]))
    ctx.floor("R1", "calendar fields carried over by v1 _ver_to_cal_info", len(args), 7)
    for f in cal_fields:
        e = args.get(f)
        ctx.check("R1", e is not None and unparse(e) == f"{pin_src}.{f}", f"v1 _ver_to_cal_info: {f} := parsed {f}",
                  f"v1version._ver_to_cal_info: calendar field '{f}' is filled from another field (--pin-date renders a different date)",
                  f"{f} = {unparse(e) if e is not None else None}", loc=vc.loc(ctor[0]), witness={"version": "v2021.03.09.0001", "flag": "--pin-date"})
    ci = prog.klass("version.V1VersionInfo").fields
    ctx.check("R1", ci[:len(cal_fields)] == cal_fields, "V1VersionInfo starts with the V1CalendarInfo fields (the bump replaces them by name)", "version.V1VersionInfo: calendar fields differ from V1CalendarInfo", "", loc="src/bumpver/version.py")
    # both legacy calendar producers read every derived field from its own strftime directive, in base 10
    from checks.c14 import _directive
    ci1 = prog.function("v1version.cal_info")
    rd1 = prog.function("v1version._parse_field_values")
    ctx.visit(ci1.fq, rd1.fq)
    want1 = {"doy": "j", "iso_week": "W", "us_week": "U"}
    dicts1 = [n for n in ast.walk(ci1.node) if isinstance(n, ast.Dict) and n.keys and all(isinstance(k, ast.Constant) for k in n.keys)]
    kw1 = [n for n in ast.walk(ci1.node) if isinstance(n, ast.Call) and unparse(n.func).endswith("V1CalendarInfo") and any(k.arg for k in n.keywords)]
    prodA: T.Dict[str, T.Optional[str]] = {}
    if len(dicts1) == 1:
        prodA = {k.value: _directive(v, ci1.params[0]) for k, v in zip(dicts1[0].keys, dicts1[0].values)}
    elif len(kw1) == 1:
        prodA = {k.arg: _directive(k.value, ci1.params[0]) for k in kw1[0].keywords if k.arg}
    else:
        raise AnalysisError("v1version.cal_info: the field table was not found")
    prodB: T.Dict[str, T.List[T.Optional[str]]] = {}
    for n in walk_no_nested(rd1.node):
        if isinstance(n, ast.Assign) and len(n.targets) == 1 and isinstance(n.targets[0], ast.Name) and n.targets[0].id in want1 \
                and any(isinstance(c_, ast.Attribute) and c_.attr == "strftime" for c_ in ast.walk(n.value)):
            recv = next(unparse(c_.value) for c_ in ast.walk(n.value) if isinstance(c_, ast.Attribute) and c_.attr == "strftime")
            prodB.setdefault(n.targets[0].id, []).append(_directive(n.value, recv))
    ctx.floor("R1", "legacy calendar fields re-derived by the reader", len(prodB), 3)
    # ... and they are derived exactly when year, month and day are known (all three parsed or computed from the day of the year)
    rcfg_ = cfgs.get(rd1.fq)
    rpc_ = PathCond(rcfg_, max_atoms=24)
    for n in rcfg_.nodes:
        if n.kind == "stmt" and isinstance(n.ast, ast.Assign) and len(n.ast.targets) == 1 and isinstance(n.ast.targets[0], ast.Name) and n.ast.targets[0].id in want1 \
                and any(isinstance(c_, ast.Attribute) and c_.attr == "strftime" for c_ in ast.walk(n.ast.value)):
            live_ = n.id in rcfg_.reachable()
            r_ = rpc_.reach(n.id).project([a_ for a_ in ("year", "month", "dom") if a_ in rpc_.atoms]) if live_ else BF.false()
            want_r = BF.true()
            for a_ in ("year", "month", "dom"):
                want_r = want_r & BF.var(a_)
            ctx.check("R1", live_ and r_.equiv(want_r), f"legacy reader: {n.ast.targets[0].id} is derived from the date exactly when year, month and day are known",
                      f"v1version._parse_field_values: calendar field '{n.ast.targets[0].id}' is not derived from a complete date",
                      f"`{unparse(n.ast)}` is reached when {r_.to_dnf() if live_ else 'never'}: a file pattern with {{{n.ast.targets[0].id}}} / {{doy_short}} is rendered from None", loc=rd1.loc(n.ast),
                      witness={"version": "v2020.03.05", "file pattern": "day-of-year: {doy_short}"})
    # the two-digit / four-digit year aliases exist only for a version that has a year
    fvf = prog.function("v1version.format_version")
    fcfg_ = cfgs.get(fvf.fq)
    fpc_ = PathCond(fcfg_, max_atoms=24)
    n_alias = 0
    for n in fcfg_.nodes:
        if n.kind == "stmt" and isinstance(n.ast, ast.Assign) and isinstance(n.ast.targets[0], ast.Subscript) and const_str(n.ast.targets[0].slice) in ("yy", "yyyy") and n.id in fcfg_.reachable():
            n_alias += 1
            r_ = fpc_.reach(n.id)
            src_ = [a_ for a_ in r_.atoms if a_ in ("year", "vinfo.year", "year is None", "vinfo.year is None")]
            ok_ = any((a_.endswith("is None") and r_.implies(~BF.var(a_))) or (not a_.endswith("is None") and r_.implies(BF.var(a_))) for a_ in src_)
            ctx.check("R1", ok_, f"legacy renderer: {{{const_str(n.ast.targets[0].slice)}}} is offered only for a version that has a year",
                      "v1version.format_version: the {yy}/{yyyy} aliases are rendered from a missing year",
                      f"`{unparse(n.ast)}` is reached when {r_.drop_unused().to_dnf() if r_.atoms else 'always'}: for a {{semver}} version a `Copyright {{yyyy}}` file pattern is written as "
                      "`Copyright None` instead of the update being refused", loc=fvf.loc(n.ast), witness={"version pattern": "{semver}", "file pattern": "Copyright {yyyy}"})
    ctx.floor("R1", "year alias assignments in v1 format_version", n_alias, 2)
    for f_, d_ in want1.items():
        a_, b_ = prodA.get(f_), prodB.get(f_, [None])
        ctx.check("R1", a_ == d_ and all(x == d_ for x in b_), f"legacy field {f_}: cal_info and the reader both use %{d_} (decimal)",
                  f"v1version: calendar field '{f_}' is not read from %{d_} in base 10 by both producers",
                  f"cal_info: {a_}, reader: {b_}: a rendered {{{f_}}} does not read back to the value it was rendered from", loc=ci1.loc(), witness={"field": f_, "cal_info": a_, "reader": b_})
    from checks.c05 import none_filter_rule
    none_filter_rule(ctx, "v1version", "R4")          # "strictly greater than their input": the future guard compares every calendar field the two sides have
    from checks.c02 import parsed_quarter_rule, part_language_band_rule, int_reads_rule
    int_reads_rule(ctx, "R1", "v1version._parse_field_values", ("year", "quarter", "month", "dom", "doy", "major", "minor", "patch"))
    v1_reader_eval(ctx, "R1")
    parsed_quarter_rule(ctx, "R1", "v1version._parse_field_values")
    import re as _re20
    part_language_band_rule(ctx, "R1", "v1patterns", V1_PART_REF, V1_PART_REF, min_flags=_re20.ASCII)
    # the reader must not reject a value the renderer can print: no range test inside the field parser may be
    # satisfiable by a value of the field's own domain
    cal = formats.calendar_domains(prog, "v1version.cal_info", (2000, 2099))
    pfn = prog.function("v1version._parse_field_values")
    _reader_range_rule(ctx, pfn, {k: v[0] for k, v in cal.items()}, "R1")

    # the reader expands a two-digit {yy} to the year the renderer took it from: + 2000 for every value 00..99
    pcfg_ = cfgs.get(pfn.fq)
    ppc_ = PathCond(pcfg_)
    exps = [n for n in pcfg_.nodes if n.kind == "stmt" and n.id in pcfg_.reachable() and
            ((isinstance(n.ast, ast.AugAssign) and isinstance(n.ast.op, ast.Add) and unparse(n.ast.target) == "year") or
             (isinstance(n.ast, ast.Assign) and unparse(n.ast.targets[0]) == "year" and isinstance(n.ast.value, ast.BinOp) and isinstance(n.ast.value.op, ast.Add)
              and any(isinstance(x, ast.Name) and x.id == "year" for x in ast.walk(n.ast.value))))]
    ctx.check("R1", len(exps) == 1, "v1 reader: one expansion of the two-digit year", "v1version._parse_field_values: two-digit years are not expanded", f"{len(exps)} expansion statements", loc=pfn.loc())
    if len(exps) == 1:
        n_ = exps[0]
        r_ = ppc_.reach(n_.id).drop_unused()
        val_e = n_.ast.value if isinstance(n_.ast, ast.AugAssign) else None
        wrong_y = None
        for y_ in range(0, 100):
            f_ = r_
            undecided = False
            for a_ in list(r_.atoms):
                tree_ = ast.parse(a_, mode="eval").body
                if {x.id for x in ast.walk(tree_) if isinstance(x, ast.Name)} <= {"year"}:
                    try:
                        f_ = f_.restrict(a_, bool(prog.fold(pfn.module, tree_, {"year": y_})))
                    except AnalysisError:
                        undecided = True
                else:
                    f_ = f_.exists(a_)
            applied = (not undecided) and f_.drop_unused().is_true()
            add = None
            if val_e is not None:
                try:
                    add = prog.fold(pfn.module, val_e, {"year": y_})
                except AnalysisError:
                    add = None
            if (not applied or add != 2000) and wrong_y is None:
                wrong_y = {"yy": f"{y_:02}", "expanded": applied, "added": add}
        ctx.check("R1", wrong_y is None, "v1 reader: every two-digit year 00..99 is expanded by 2000 (what {yy} was rendered from)",
                  "v1version._parse_field_values: a rendered {yy} does not read back as the year it was rendered from",
                  f"{wrong_y}: the version reads back as another year (e.g. `v00.0033` as year 0, or 2069..2099 as 19xx) and the next rendering is rejected by its own pattern" if wrong_y else "",
                  loc=pfn.loc(n_.ast), witness=wrong_y)

    # {pep440_version} for a legacy version pattern: the mapping follows from the pattern itself
    #   v stripped, {build} -> .{BID}, {release} -> {pep440_tag}; {pycalver} -> {pep440_pycalver}; {semver} unchanged
    npf = prog.function("v1patterns._normalized_pattern")
    ctx.visit(npf.fq)
    vp_param = npf.params[0]
    pairs: T.Dict[str, str] = {}
    ncfg = cfgs.get(npf.fq)
    npc = PathCond(ncfg)
    def _is_ph(e_: ast.AST) -> bool:
        try:
            return prog.fold(npf.module, e_) == "{pep440_version}"
        except AnalysisError:
            return False
    for n in ncfg.nodes:
        if n.kind != "stmt" or n.id not in ncfg.reachable() or not isinstance(n.ast, (ast.Assign, ast.Return)) or n.ast.value is None:
            continue
        for v in [c_ for c_ in ast.walk(n.ast.value) if isinstance(c_, ast.Call)]:
          if isinstance(v.func, ast.Attribute) and v.func.attr == "replace" and len(v.args) == 2 and _is_ph(v.args[0]):
            rep = shapes.inline(npf, v.args[1], prog, consts=False)
            rep_txt = const_str(rep)
            if rep_txt is None:
                try:
                    fv_ = prog.fold(npf.module, rep)
                    rep_txt = fv_ if isinstance(fv_, str) else None
                except AnalysisError:
                    rep_txt = None
            if rep_txt is not None:
                # branch form: the reach condition names the version pattern
                r_ = npc.reach(n.id).drop_unused()
                eqs = [a_ for a_ in r_.atoms if r_.implies(BF.var(a_)) and a_.startswith(f"{vp_param} == ")]
                for a_ in eqs:
                    pairs[ast.literal_eval(a_.split(" == ", 1)[1])] = rep_txt
            elif isinstance(rep, ast.Subscript) and unparse(rep.slice) == vp_param:
                try:
                    tab = prog.fold(npf.module, rep.value)
                except AnalysisError:
                    tab = None
                if isinstance(tab, dict):
                    pairs.update({k_: v_ for k_, v_ in tab.items() if isinstance(k_, str) and isinstance(v_, str)})
            elif isinstance(rep, ast.Call) and isinstance(rep.func, ast.Attribute) and rep.func.attr == "get":
                try:
                    tab = prog.fold(npf.module, rep.func.value)
                except AnalysisError:
                    tab = None
                if isinstance(tab, dict):
                    pairs.update({k_: v_ for k_, v_ in tab.items() if isinstance(k_, str) and isinstance(v_, str)})
    ctx.floor("R1", "legacy version patterns with a {pep440_version} mapping", len(pairs), 4)

    def derive(vp: str) -> str:
        if vp == "{pycalver}":
            return "{pep440_pycalver}"
        if vp == "{semver}":
            return "{semver}"
        out_ = vp[1:] if vp.startswith("v") else vp
        return out_.replace("{build}", ".{BID}").replace("{release}", "{pep440_tag}")
    for vp in LEGACY_VERSION_PATTERNS_WITH_PEP440:
        ctx.check("R1", vp in pairs, f"_normalized_pattern: {vp!r} has a {{pep440_version}} mapping",
                  "v1patterns._normalized_pattern: a legacy version pattern lost its {pep440_version} mapping",
                  f"no replacement of {{pep440_version}} is reached under `{vp_param} == {vp!r}`: file patterns using {{pep440_version}} are compiled with the placeholder left in "
                  f"(KeyError/TypeError on rendering, never matches)", loc=npf.loc(), witness={"version_pattern": vp})
    for vp, rep in sorted(pairs.items()):
        ctx.check("R1", rep == derive(vp), f"_normalized_pattern: {{pep440_version}} of {vp!r} is {derive(vp)!r}",
                  "v1patterns._normalized_pattern: the {pep440_version} search pattern does not follow from the version pattern",
                  f"{vp!r} -> {rep!r}, expected {derive(vp)!r}: a file pattern using {{pep440_version}} never matches what was written for that version pattern", loc=npf.loc(),
                  witness={"version_pattern": vp, "mapped": rep})

    # ---------------------------------------------------------------- R2
    from checks.c01 import full_match_rule
    full_match_rule(ctx, "v1version", "R2")

    # ---------------------------------------------------------------- R3
    witnesses = sorted({"{" + p + "}" for p in set(pats) | set(comps) | set(full)})
    ctx.floor("R3", "legacy placeholders (witness set)", len(witnesses), 20)          # read from the tables themselves; the named ones are required one by one above
    sites = [("cli.incr_dispatch", "has_v1_part", True), ("cli._is_valid_version", "is_new_pattern", False),
             ("config._parse_config", "is_new_pattern", False)]
    site_bf: T.Dict[str, BF] = {}
    for fq, var, legacy_when in sites:
        fn = prog.function(fq)
        ctx.visit(fq)
        d = shapes.single_def(fn, var)
        if d is None:
            d = _any_loop(fn, var)
        ctx.require(d is not None, f"{fq}: engine predicate `{var}` not a single assignment / any-loop")
        pat_var, evaluator, bf = _predicate(ctx, fn, d)
        site_bf[fq] = bf
        leg = bf if legacy_when else ~bf
        wrong = [w for w in witnesses if evaluator(w) != legacy_when]
        ctx.check("R3", not wrong, f"{fq}: `{var}` sends every legacy placeholder ({len(witnesses)}) to the legacy engine",
                  f"{fq}: a legacy pattern is not recognised as legacy", f"`{unparse(d)[:80]}` misclassifies {wrong[:5]}", loc=fn.loc(d), witness=wrong[:5])
        mono = all(leg.restrict(a, False).implies(leg.restrict(a, True)) for a in leg.atoms)
        ctx.check("R3", mono, f"{fq}: `{var}` is monotone in the pattern (a pattern containing a legacy placeholder stays legacy)",
                  f"{fq}: engine predicate is not monotone", f"{leg.to_dnf()}", loc=fn.loc(d))
    # the gate (test / update) and the config loader decide "new-style pattern" by the same function of the same tests
    a_, b_ = site_bf["cli._is_valid_version"], site_bf["config._parse_config"]
    ctx.check("R3", a_.equiv(b_), "cli._is_valid_version and config._parse_config classify every pattern alike (same predicate)",
              "cli._is_valid_version: a pattern is validated with another engine than the config loader uses",
              f"gate: new-style iff {a_.to_dnf()}; config loader: new-style iff {b_.to_dnf()} - `test` accepts a pattern/version pair that `show` and `update` refuse (or the reverse)",
              loc=prog.function("cli._is_valid_version").loc(), witness=a_.diff_witness(b_))
    # the predicate's outcome selects the engine
    disp = prog.function("cli.incr_dispatch")
    dcfg = cfgs.get(disp.fq)
    dpc = PathCond(dcfg)
    for eng, want in (("v1version", BF.var("has_v1_part")), ("v2version", ~BF.var("has_v1_part"))):
        cs = shapes.find_calls(prog, disp, f"{eng}.incr")
        ctx.require(len(cs) == 1, f"incr_dispatch: expected one {eng}.incr call")
        r = dpc.reach(dcfg.node_containing(cs[0])).project(["has_v1_part"])
        ctx.check("R3", r.equiv(want), f"incr_dispatch: {eng}.incr exactly when has_v1_part is {'true' if eng == 'v1version' else 'false'}",
                  "cli.incr_dispatch: engine dispatch does not follow has_v1_part", r.to_dnf(), loc=disp.loc(cs[0]))
    pc_fn = prog.function("config._parse_config")
    shapes.check_passthrough(ctx, "R3", "config._parse_config", "config._validate_version_with_pattern", {"is_new_pattern": "is_new_pattern"})
    shapes.check_passthrough(ctx, "R3", "config._parse_config", "config._compile_file_patterns", {"is_new_pattern": "is_new_pattern"})
    ctor = [c for c in ast.walk(pc_fn.node) if isinstance(c, ast.Call) and unparse(c.func) == "Config"]
    ok = len(ctor) == 1 and unparse(shapes.kwargs_of(ctor[0]).get("is_new_pattern", ast.Constant(None))) == "is_new_pattern"
    ctx.check("R3", ok, "_parse_config stores is_new_pattern in the Config", "config._parse_config: Config.is_new_pattern not taken from the predicate", "", loc=pc_fn.loc())
    for fq, eng_true, eng_false in (("config._validate_version_with_pattern", "v2version.parse_version_info", "v1version.parse_version_info"),
                                    ("config._compile_file_patterns", "config._compile_v2_file_patterns", "config._compile_v1_file_patterns"),
                                    ("cli.get_diff", "v2rewrite.diff", "v1rewrite.diff")):
        fn = prog.function(fq)
        g = cfgs.get(fq)
        pc = PathCond(g)
        atom = [a for a in pc.atoms if a.endswith("is_new_pattern")]
        ctx.require(len(atom) == 1, f"{fq}: no branch on is_new_pattern")
        ip20 = ctx.interproc(())
        for callee, want in ((eng_true, BF.var(atom[0])), (eng_false, ~BF.var(atom[0]))):
            # the call may sit in fq itself or in a helper of the same module below it
            sites = [(prog.function(f_), c_) for f_ in sorted(ctx.effects.reachable_functions([fq])) if f_.split(".")[0] == fq.split(".")[0]
                     for c_ in shapes.find_calls(prog, prog.function(f_), callee)]
            ctx.require(len(sites) >= 1, f"{fq}: call to {callee} not found")
            r = ip20.site_condition(sites[0][0], sites[0][1], fq).project(atom)
            cs = [sites[0][1]]
            fn_site = sites[0][0]
            ctx.check("R3", r.equiv(want), f"{fq}: {callee} selected by is_new_pattern", f"{fq}: engine selection does not follow is_new_pattern", r.to_dnf(), loc=fn_site.loc(cs[0]))
    # flag validation must not apply new-style rules to legacy patterns
    vf = prog.function("cli._validate_flags")
    vcfg = cfgs.get(vf.fq)
    early = [n for n in vcfg.nodes if n.kind == "stmt" and isinstance(n.ast, ast.Return)]
    ctx.require(early, "_validate_flags: early return for legacy patterns not found")
    if_node = [n for n in walk_no_nested(vf.node) if isinstance(n, ast.If) and any(isinstance(s, ast.Return) for s in n.body)]
    ctx.require(len(if_node) == 1, "_validate_flags: legacy guard shape changed")
    _pv, ev, bf = _predicate(ctx, vf, if_node[0].test)
    wrong = [w for w in witnesses if not ev(w)]
    ctx.check("R3", not wrong, "_validate_flags skips new-style flag validation for every legacy placeholder", "cli._validate_flags: legacy pattern is validated with new-style rules",
              f"{wrong[:5]}", loc=vf.loc(if_node[0]))

    # ---------------------------------------------------------------- R4
    inc = prog.function("v1version.incr")
    ctx.visit(inc.fq)
    icfg = cfgs.get(inc.fq)
    ipc = PathCond(icfg)
    # the bump calendar replaces every calendar field of the old record: `old_vinfo._replace(**cur_cinfo._asdict())`, the whole record of cal_info
    # (the legacy reader leaves the week fields None; a week pattern is rendered from today's values)
    splats = [(c, kw) for c in ast.walk(inc.node) if isinstance(c, ast.Call) and isinstance(c.func, ast.Attribute) and c.func.attr == "_replace" for kw in c.keywords if kw.arg is None]
    for c, kw in splats:
        src_ = shapes.resolve_alias(inc, kw.value)
        whole = isinstance(src_, ast.Call) and isinstance(src_.func, ast.Attribute) and src_.func.attr == "_asdict" and not src_.args
        ctx.check("R4", whole, f"v1version.incr L{c.lineno}: the record takes every field of `{unparse(src_)[:40]}`",
                  "v1version.incr: only some calendar fields of the bump calendar replace those of the old version",
                  f"`{unparse(c)[:60]}` with `{unparse(src_)[:90]}`: fields the legacy reader never fills (iso_week, us_week) or that are filtered out stay None / stale, "
                  f"so a week pattern cannot be rendered or shows the old value", loc=inc.loc(c), witness={"pattern": "v{year}w{iso_week}.{BID}{release}"})
    flags = [p for p in inc.all_params if p in ("major", "minor", "patch", "tag", "tag_num")]
    facts = []
    for n in icfg.nodes:
        if n.kind == "stmt" and isinstance(n.ast, ast.Assign) and isinstance(n.ast.value, ast.Call) and isinstance(n.ast.value.func, ast.Attribute) \
                and n.ast.value.func.attr == "_replace" and unparse(n.ast.value.func.value) == "cur_vinfo" and n.id in icfg.reachable():
            kws = {kw.arg: unparse(kw.value) for kw in n.ast.value.keywords if kw.arg}
            if kws:
                facts.append((kws, ipc.reach(n.id).project(flags + ["_is_cal_gt(old_vinfo, cur_cinfo)"]), n.ast))
    bid = [(k, r, a) for k, r, a in facts if "bid" in k]
    ok = len(bid) == 1 and bid[0][0]["bid"] == "lexid.next_id(cur_vinfo.bid)" and bid[0][1].is_true()
    ctx.check("R4", ok, "v1 incr: bid := lexid.next_id(bid) on every bump", "v1version.incr: build id is not always advanced with lexid.next_id",
              f"{[(k, r.to_dnf()) for k, r, _ in bid]}", loc=inc.loc())
    expect = {"major": ({"major": "cur_vinfo.major + 1", "minor": "0", "patch": "0"}, "major"),
              "minor": ({"minor": "cur_vinfo.minor + 1", "patch": "0"}, "minor"),
              "patch": ({"patch": "cur_vinfo.patch + 1"}, "patch"),
              "tag": ({"tag": "tag"}, "tag")}
    for name, (kws, flag) in expect.items():
        hit = [(k, r) for k, r, _a in facts if k == kws]
        # tag_num raises before tag is applied; ignore that atom for the others by projecting on the flag alone
        ok = len(hit) == 1 and hit[0][1].project([flag]).equiv(BF.var(flag))
        ctx.check("R4", ok, f"v1 incr: --{name} applies {kws}", f"v1version.incr: --{name} does not apply the documented update",
                  f"{[(k, r.to_dnf()) for k, r in hit]}", loc=inc.loc())
    raises = [n for n in icfg.nodes if n.kind == "stmt" and isinstance(n.ast, ast.Raise) and n.id in icfg.reachable()]
    ok = any((n.extra.get("raised") or "") == "NotImplementedError" and ipc.reach(n.id).project(["tag_num"]).equiv(BF.var("tag_num")) for n in raises)
    ex = BF.false()
    for n in icfg.nodes:
        if n.kind == "stmt" and isinstance(n.ast, ast.Return) and not (isinstance(n.ast.value, ast.Constant) and n.ast.value.value is None) and n.id in icfg.reachable():
            ex = ex | ipc.reach(n.id)
    ctx.check("R4", ok and ex.implies(~BF.var("tag_num")), "v1 incr: --tag-num is refused (never returns normally)", "v1version.incr: --tag-num is silently accepted for legacy patterns",
              ex.to_dnf(), loc=inc.loc())


def _predicate(ctx, fn, expr: ast.AST) -> T.Tuple[str, T.Callable[[str], bool], BF]:
    """Model a pattern predicate built from constant-substring tests.  Returns (pattern variable,
    evaluator on a concrete pattern string, BF over the leaf atoms)."""
    prog = ctx.prog
    leaves: T.Dict[str, T.Callable[[str], bool]] = {}
    pat_vars: T.Set[str] = set()

    def classify(leaf: ast.AST) -> T.Tuple[str, bool]:
        if isinstance(leaf, ast.Compare) and len(leaf.ops) == 1 and isinstance(leaf.ops[0], (ast.In, ast.NotIn)) \
                and isinstance(leaf.left, ast.Constant) and isinstance(leaf.left.value, str) and isinstance(leaf.comparators[0], ast.Name):
            c = leaf.left.value
            pat_vars.add(leaf.comparators[0].id)
            name = f"{c!r} in pattern"
            leaves[name] = lambda w, c=c: c in w
            return name, isinstance(leaf.ops[0], ast.In)
        if isinstance(leaf, ast.Call) and unparse(leaf.func) == "any" and len(leaf.args) == 1 and isinstance(leaf.args[0], ast.GeneratorExp):
            g = leaf.args[0]
            ctx.require(len(g.generators) == 1 and isinstance(g.generators[0].target, ast.Name) and not g.generators[0].ifs, "any(...) shape not enumerated")
            var = g.generators[0].target.id
            items = prog.fold(fn.module, shapes.resolve_alias(fn, g.generators[0].iter))
            elt = g.elt
            ctx.require(isinstance(elt, ast.Compare) and isinstance(elt.ops[0], ast.In) and isinstance(elt.comparators[0], ast.Name), "any(...) element shape not enumerated")
            pat_vars.add(elt.comparators[0].id)
            needles = [prog.fold(fn.module, elt.left, {var: it}) for it in items]
            name = f"any({len(needles)} placeholders) in pattern"
            leaves[name] = lambda w, needles=needles: any(nd in w for nd in needles)
            return name, True
        raise AnalysisError(f"C20/R3: predicate leaf not enumerated: {unparse(leaf)[:70]}")

    bf = shapes.bool_expr_bf(shapes.inline(fn, expr, prog), classify)
    ctx.require(len(pat_vars) == 1, f"engine predicate tests several variables: {pat_vars}")

    def evaluator(w: str) -> bool:
        idx = 0
        for j, a in enumerate(bf.atoms):
            if leaves[a](w):
                idx |= 1 << j
        return bool((bf.bits >> idx) & 1)

    return pat_vars.pop(), evaluator, bf


def _reader_range_rule(ctx, fn, domains: T.Dict[str, T.Any], rule: str) -> None:
    """Explicit raises in a field parser must not be conditioned on `field OP const` tests that a value of the
    field's rendering domain satisfies (the renderer could print a version the reader then refuses)."""
    cfg = ctx.cfgs.get(fn.fq)
    pc = PathCond(cfg, max_atoms=24)
    raises = [n for n in cfg.nodes if n.kind == "stmt" and isinstance(n.ast, ast.Raise) and n.id in cfg.reachable()]
    n_checked = 0
    for n in raises:
        r = pc.reach(n.id).drop_unused()
        for a in r.atoms:
            tree = ast.parse(a, mode="eval").body
            cs = shapes.compare_shape(tree)
            if cs is None:
                continue
            op, l, rr = cs
            if isinstance(l, ast.Constant) and isinstance(rr, ast.Name):
                l, rr, op = rr, l, shapes.mirror(op)
            if not (isinstance(l, ast.Name) and l.id in domains and isinstance(rr, ast.Constant) and isinstance(rr.value, int)):
                continue
            dom = domains[l.id]
            if dom[0] != "ints":
                continue
            n_checked += 1
            for pol in (True, False):
                if not r.implies(BF.var(a) if pol else ~BF.var(a)):
                    continue
                eff = op if pol else {"<": ">=", "<=": ">", ">": "<=", ">=": "<", "==": "!=", "!=": "=="}[op]
                sat = [v for v in range(dom[1], dom[2] + 1) if {"<": v < rr.value, "<=": v <= rr.value, ">": v > rr.value, ">=": v >= rr.value, "==": v == rr.value, "!=": v != rr.value}[eff]]
                ctx.check(rule, not sat, f"{fn.fq}: raise at L{n.lineno} under `{l.id} {eff} {rr.value}` is unreachable for rendered values of '{l.id}'",
                          f"{fn.fq}: the reader rejects a value of '{l.id}' that the renderer prints",
                          f"`raise` at L{n.lineno} is taken when {l.id} {eff} {rr.value}; the field's domain {dom[1]}..{dom[2]} contains {sat[:3]}", loc=fn.loc(n.ast), witness={l.id: sat[:3]})
    ctx.ok(rule, f"{fn.fq}: {len(raises)} raise site(s), {n_checked} range test(s) examined")


def _any_loop(fn, var: str) -> T.Optional[ast.AST]:
    return shapes.any_loop(fn, var)
