"""C08 - any sequence of updates keeps files, config and tags in agreement (the per-update VCS clause)."""
from __future__ import annotations

import ast
import shlex
import typing as T

from sa import shapes
from sa.boolfn import BF
from sa.model import AnalysisError, call_arg, const_str, unparse, walk_no_nested
from sa.pathcond import PathCond

TECHNIQUE = "call-site multiplicity / loop-membership rules on the commit sequence, template token checks, wiring checks, path condition of the tag lookup"
EXPLANATION = (
    "The history-level statement (state after step n is a legal input for step n+1; files = config = tag) is the inductive "
    "composition of C01, C02, C03, C04 and C06 and is NOT decided as such.  Decided is the per-update clause 'each committing "
    "update adds exactly one commit containing only the configured files, and one tag on that commit': (R1) the staged set is "
    "the configured file set - the same set that was dirty-checked - staged one path per call in a loop over that set; (R2) no "
    "command template stages or commits by catch-all (-a/--all/-A/.); (R3) vcs.commit calls VCSAPI.commit and VCSAPI.tag "
    "exactly once each, outside any loop, the tag after the commit, named by the gated new version; (R4) `update` and `show` "
    "re-derive the starting version from the VCS tags on every run unless --ignore-vcs-tag."
)
LEVEL_NOTE = "PARTIAL: decides the VCS call structure of one update, not agreement over histories. git only (the property's quantifier); hg's `commit` semantics are an observation."


def run(ctx) -> None:
    prog, effects, cfgs = ctx.prog, ctx.effects, ctx.cfgs
    ctx.rule("R1", "staged set == configured set == dirty-checked set; one add per configured path")
    ctx.rule("R2", "no catch-all staging/committing in the command templates")
    ctx.rule("R3", "exactly one commit call and one tag call per update, tag after commit, named by the new version")
    ctx.rule("R4", "update/show call _update_cfg_from_vcs unless --ignore-vcs-tag")
    ctx.rule("R5", "prerequisite: every configured occurrence - the config file's own current_version line included - is rewritten, one entry per file (C03/R1-R6)")
    ctx.rule("R6", "prerequisite: the starting version follows the tag-scope rules under version.parse_version (C09/R1)")
    from sa.report import run_prerequisite
    run_prerequisite(ctx, "C03", ("R1", "R2", "R3", "R4", "R5", "R6"), "R5")
    run_prerequisite(ctx, "C09", ("R1", "R3", "R4"), "R6")
    ctx.rule("R8", "prerequisite: the next legitimate update is not refused - 'greater' between two versions of a non-PEP 440 pattern is pkg_resources' order (C16/R9)")
    run_prerequisite(ctx, "C16", ("R9",), "R8")
    ctx.rule("R9", "prerequisite: 'a further update is always possible' - the build number always has a successor (C17/R1-R4) and a version ahead of today's date is bumped as it stands (C05/R4)")
    run_prerequisite(ctx, "C17", ("R1", "R2", "R3", "R4"), "R9")
    run_prerequisite(ctx, "C05", ("R4",), "R9")
    # "... which is strictly greater than the previous one, so a further update is always possible": the gate (C01) and the
    # round trip of what was rendered (C02) are what makes the next update start from a readable, smaller version
    ctx.rule("R7", "prerequisite: the announced version passed the gate (C01/R1-R3) and reads back under its own pattern (C02/R2-R5)")
    run_prerequisite(ctx, "C01", ("R1", "R2", "R3"), "R7")
    run_prerequisite(ctx, "C02", ("R2", "R3", "R4", "R5"), "R7")
    # "tags in agreement": a tag, once set, stays where the update that made it put it - the mutating templates run the verb their name stands for, without overwriting flags
    run_prerequisite(ctx, "C10", ("R8",), "R2", only=lambda key: "VCS_SUBCOMMANDS_BY_NAME" in key)
    # a failed update in the middle of a sequence leaves files and config in agreement: nothing is written before every file was validated
    run_prerequisite(ctx, "C06", ("R1",), "R5")

    upd = prog.function("cli._update")
    vc = prog.function("vcs.commit")
    ctx.visit(upd.fq, vc.fq)
    # ---------------------------------------------------------------- R1
    FILESET = ("set(cfg.file_patterns.keys())", "set(cfg.file_patterns)")
    shapes.check_passthrough(ctx, "R1", upd.fq, "vcs.commit", {"filepaths": FILESET, "cfg": "cfg", "vcs_api": "vcs_api", "new_version": "new_version"})
    dirty_callers = [fq for fq in sorted(effects.reachable_functions(["cli.update"])) if shapes.find_calls(prog, prog.function(fq), "vcs.assert_not_dirty")]
    if not dirty_callers:
        ctx.bad("R1", "cli.update: the dirty check is never called", "no call of vcs.assert_not_dirty is reachable from `bumpver update`", loc=upd.loc(),
                what="update: dirty check covers the configured files")
    for fq_ in dirty_callers:
        shapes.check_passthrough(ctx, "R1", fq_, "vcs.assert_not_dirty", {"filepaths": FILESET})
    adds = shapes.find_calls(prog, vc, "vcs.VCSAPI.add")
    ctx.floor("R1", "add() call sites in vcs.commit", len(adds), 1)
    for c in adds:
        loops = [l for l in shapes.enclosing_loops(vc, c) if isinstance(l, ast.For)]
        arg = call_arg(c, prog.function("vcs.VCSAPI.add"), "path")
        ok = len(loops) == 1 and isinstance(loops[0].target, ast.Name) and isinstance(arg, ast.Name) and arg.id == loops[0].target.id \
            and unparse(shapes.resolve_alias(vc, loops[0].iter)) in ("filepaths", "sorted(filepaths)")
        ctx.check("R1", ok, "vcs.commit: add(<each element of filepaths>)", "vcs.commit: staged paths are not exactly the configured paths",
                  f"`{unparse(c)}` in loops {[unparse(l.iter) for l in loops]}", loc=vc.loc(c))
        if loops:
            gs_ = shapes.guards_between(loops[0], c)
            ctx.check("R1", not gs_, "vcs.commit: every configured path is staged unconditionally", "vcs.commit: a configured path is staged only under a condition",
                      f"`{unparse(c)}` runs only when `{' and '.join(unparse(g) for g in gs_)}`", loc=vc.loc(c))
    # the only add_path sites of the package are in VCSAPI.add
    ap = [s for s in effects.all_sites("VCS_MUTATE:add_path")]
    ctx.check("R1", {s.fn.fq for s in ap} == {"vcs.VCSAPI.add"}, "add_path is issued only by VCSAPI.add", "vcs: files are staged outside VCSAPI.add", f"{[s.loc for s in ap]}", loc="src/bumpver/vcs.py")
    ip = ctx.interproc()
    add_callers = {c.fq for c, _ in ip.callers.get("vcs.VCSAPI.add", [])}
    ctx.check("R1", add_callers == {"vcs.commit"}, "VCSAPI.add is called only from vcs.commit", "vcs.VCSAPI.add is called from elsewhere", f"{sorted(add_callers)}", loc="src/bumpver/vcs.py")

    # ---------------------------------------------------------------- R2
    table = prog.const("vcs", "VCS_SUBCOMMANDS_BY_NAME")
    catch_all = {"-a", "--all", "-A", ".", "-u", "--include", ":/", "*", "--addremove", "-am"}
    for v in ("git", "hg"):
        for cmd in ("commit", "add_path"):
            tmpl = table[v].get(cmd)
            ctx.require(tmpl is not None, f"template {v}/{cmd} vanished")
            toks = shlex.split(tmpl.replace("{path}", "\x01").replace("{message}", "\x02"))
            bad = [t for t in toks[2:] if t in catch_all or (t.startswith("-") and not t.startswith("--") and "a" in t[1:] and cmd == "commit")]
            msg = f"template {v}/{cmd} = {tmpl!r}"
            if v == "git":
                ctx.check("R2", not bad, f"git {cmd}: no catch-all option ({toks[2:]})", f"vcs template git/{cmd} stages or commits by catch-all", f"{msg}: {bad}", loc="src/bumpver/vcs.py")
            elif bad:
                ctx.observe(f"hg {cmd} template has catch-all tokens {bad} (hg is outside C08's quantifier)")
            if cmd == "add_path":
                paths = [t for t in toks[2:] if not t.startswith("-")]
                ok = paths == ["\x01"]
                if v == "git":
                    ctx.check("R2", ok, "git add_path: the only pathspec is {path}", "vcs template git/add_path names other pathspecs than {path}", msg, loc="src/bumpver/vcs.py")
    ctx.observe("hg `commit` without file arguments commits every modified tracked file; only the dirty check keeps unrelated changes out (hg is outside C08's quantifier)")

    # ---------------------------------------------------------------- R3
    for meth, what in (("vcs.VCSAPI.commit", "commit"), ("vcs.VCSAPI.tag", "tag")):
        cs = shapes.find_calls(prog, vc, meth)
        ctx.check("R3", len(cs) == 1, f"vcs.commit calls {meth.split('.')[-1]}() exactly once", f"vcs.commit: {what} is issued {len(cs)} times", f"{[unparse(c)[:50] for c in cs]}", loc=vc.loc())
        for c in cs:
            loops = shapes.enclosing_loops(vc, c)
            ctx.check("R3", not loops, f"vcs.commit: {what}() is not inside a loop", f"vcs.commit: {what} is issued in a loop (several {what}s per update)", f"loops: {[unparse(l.iter) if isinstance(l, ast.For) else 'while' for l in loops]}",
                      loc=vc.loc(c))
    callers_commit = {c.fq for c, _ in ip.callers.get("vcs.VCSAPI.commit", [])}
    callers_tag = {c.fq for c, _ in ip.callers.get("vcs.VCSAPI.tag", [])}
    ctx.check("R3", callers_commit == {"vcs.commit"} and callers_tag == {"vcs.commit"}, "VCSAPI.commit / VCSAPI.tag are called only from vcs.commit",
              "vcs: commit/tag issued from elsewhere", f"{sorted(callers_commit)} / {sorted(callers_tag)}", loc="src/bumpver/vcs.py")
    vcc = {c.fq for c, _ in ip.callers.get("vcs.commit", [])}
    uc = shapes.find_calls(prog, upd, "vcs.commit")
    ctx.check("R3", vcc == {"cli._update"} and len(uc) == 1 and not shapes.enclosing_loops(upd, uc[0]), "vcs.commit is called once, from cli._update, outside any loop",
              "vcs.commit is called more than once per update", f"callers {sorted(vcc)}, {len(uc)} call(s)", loc=upd.loc())
    tg = shapes.find_calls(prog, vc, "vcs.VCSAPI.tag")
    cm = shapes.find_calls(prog, vc, "vcs.VCSAPI.commit")
    if tg and cm:
        g = cfgs.get(vc.fq)
        tn, cn = g.node_containing(tg[0]), g.node_containing(cm[0])
        f = PathCond(g, blocked_nodes=[cn]).reach(tn)
        if not f.is_false():
            # in the context of its only caller: conditions of the call site, and "a VCS handle exists only under cfg.commit"
            from checks.c10 import vcs_handle_implies_commit
            f = ip.lift(vc, f, "cli._update").drop_unused()
            if vcs_handle_implies_commit(ctx) and "vcs_api" in f.atoms:
                f = f & (~BF.var("vcs_api") | BF.var("cfg.commit"))
        ctx.check("R3", f.is_false(), "vcs.commit: every feasible path to the tag call passes the commit call", "vcs.commit: a tag can be created without / before the commit",
                  f"without the commit call the tag call is reached when {f.to_dnf()}", loc=vc.loc(tg[0]))
        a = call_arg(tg[0], prog.function("vcs.VCSAPI.tag"), "tag_name")
        ctx.check("R3", a is not None and unparse(a) == "new_version", "vcs.commit: tag_name = new_version", "vcs.commit: the tag is not named by the new version", unparse(tg[0]), loc=vc.loc(tg[0]))
    shapes.check_passthrough(ctx, "R3", "cli.update", "cli._update", {"new_version": "new_version"})
    # git tag template tags HEAD (no explicit commit-ish): the commit just made
    for k in ("tag", "tag_light"):
        toks = shlex.split(table["git"][k].replace("{tag}", "\x01").replace("{message}", "\x02"))
        nonopt = [t for t in toks[2:] if not t.startswith("-") and t != "\x02"]
        ctx.check("R3", nonopt == ["\x01"], f"git {k}: tags HEAD (only positional argument is the tag name)", f"vcs template git/{k} tags something other than HEAD", f"{toks}", loc="src/bumpver/vcs.py")

    # ---------------------------------------------------------------- R4
    for root in ("cli.update", "cli.show"):
        fn = prog.function(root)
        ctx.visit(root)
        g = cfgs.get(root)
        pc = PathCond(g)
        cs = shapes.find_calls(prog, fn, "cli._update_cfg_from_vcs")
        ctx.check("R4", len(cs) == 1, f"{root}: one _update_cfg_from_vcs call", f"{root}: does not resolve the current version from VCS tags", f"{len(cs)} calls", loc=fn.loc())
        if len(cs) != 1:
            continue
        ctx.require("ignore_vcs_tag" in pc.atoms, f"{root}: no branch on ignore_vcs_tag")
        r = pc.reach(g.node_containing(cs[0])).project(["ignore_vcs_tag"])
        ctx.check("R4", r.equiv(~BF.var("ignore_vcs_tag")), f"{root}: tag lookup exactly when not --ignore-vcs-tag", f"{root}: tag lookup skipped/forced under the wrong condition", r.to_dnf(), loc=fn.loc(cs[0]))
        n = g.nodes[g.node_containing(cs[0])]
        ok = isinstance(n.ast, ast.Assign) and unparse(n.ast.targets[0]) == "cfg" and [unparse(a) for a in cs[0].args] == ["cfg", "fetch"]
        ctx.check("R4", ok, f"{root}: cfg = _update_cfg_from_vcs(cfg, fetch)", f"{root}: the resolved version is not stored back into cfg", unparse(n.ast)[:70], loc=fn.loc(cs[0]))
