"""C17 - BUILD numbers grow numerically and lexically forever (bumpver's side of the lexid contract)."""
from __future__ import annotations

import ast
import typing as T

from sa import formats, shapes
from sa.boolfn import BF
from sa.model import AnalysisError, const_str, unparse, walk_no_nested
from sa.pathcond import PathCond

TECHNIQUE = "post-dominance / path condition of the successor call, table and type checks keeping BUILD a string, dominance + constant agreement of the padding step"
EXPLANATION = (
    "The ordering of successive ids across digit-length expansions is a theorem about lexid.next_id (third-party code outside "
    "the repository) plus arithmetic on runtime strings and is NOT decided.  Decided is bumpver's side of the contract: (R1) "
    "on every bump the build id is replaced by lexid.next_id of the current id, unconditionally, in both engines; (R2) BUILD "
    "is never reset: it is not in the reset table and the rollover reset never stores it; (R3) BUILD stays a string from "
    "read to write (field type, no int() on read, identity formatter; only BLD canonicalises, and only when rendering); (R4) "
    "ids below the threshold are padded by adding the same power of ten before the successor is taken."
)
LEVEL_NOTE = "PARTIAL: nothing is claimed about lexid.next_id itself (ordering across expansions, maximum id)."


def run(ctx) -> None:
    prog, cfgs = ctx.prog, ctx.cfgs
    ctx.rule("R1", "bid := lexid.next_id(bid) on every bump (v2 and v1), unconditionally")
    ctx.rule("R2", "BUILD is never reset")
    ctx.rule("R3", "BUILD stays a string from read to write")
    ctx.rule("R4", "padding (< T -> + T, T a power of ten) dominates the successor")
    ctx.rule("R5", "prerequisite: 'successive bumps' start from the newest version - the tag that replaces the config value is chosen under version.parse_version, not as text (C09/R1)")
    from sa.report import run_prerequisite
    run_prerequisite(ctx, "C09", ("R1",), "R5", only=lambda key: "_update_cfg_from_vcs" in key)

    # R3 (ordering side): a build id is a digit string whose order is numeric (and lexical only from four digits on): it is
    # never ordered as text.  Any `<`, `<=`, `>`, `>=` with a `.bid` operand (or a local bound to one) outside int(...) is one.
    n_cmp = 0
    for modname in ("v2version", "v1version", "cli"):
        for fn_ in prog.module(modname).functions.values():
            bid_names = {t_.id for st_ in ast.walk(fn_.node) if isinstance(st_, ast.Assign) and isinstance(st_.value, ast.Attribute) and st_.value.attr == "bid"
                         for t_ in st_.targets if isinstance(t_, ast.Name)}
            for c_ in ast.walk(fn_.node):
                if not (isinstance(c_, ast.Compare) and any(isinstance(o_, (ast.Lt, ast.LtE, ast.Gt, ast.GtE)) for o_ in c_.ops)):
                    continue
                operands = [c_.left] + list(c_.comparators)
                texty = [o_ for o_ in operands if (isinstance(o_, ast.Attribute) and o_.attr == "bid") or (isinstance(o_, ast.Name) and o_.id in bid_names)]
                if any(isinstance(o_, ast.Call) and unparse(o_.func) == "int" and o_.args and ((isinstance(o_.args[0], ast.Attribute) and o_.args[0].attr == "bid")
                                                                                             or (isinstance(o_.args[0], ast.Name) and o_.args[0].id in bid_names)) for o_ in operands):
                    n_cmp += 1
                    ctx.ok("R3", f"{fn_.fq}: `{unparse(c_)[:50]}` orders the build id as a number")
                for o_ in texty:
                    n_cmp += 1
                    ctx.bad("R3", f"{fn_.fq}: a build id is ordered as text", f"`{unparse(c_)[:70]}` compares the digit string itself: '99' > '1000' and '7' > '1008' as text - short ids are "
                            f"padded (or refused) wrongly and their legitimate successor looks smaller", loc=fn_.loc(c_), witness={"bid": "98", "text order": "'98' < '1000' is False"},
                            what=f"{fn_.fq}: build ids are ordered through int()")
    ctx.notes["bid_order_comparisons"] = n_cmp

    # the v2 bump is decided by evaluating _incr_numeric (C05's evaluation: the build id is padded below 1000 and replaced by its lexid
    # successor under every combination of flags); the statement-level rules below decide when it cannot be evaluated
    from checks.c05 import incr_numeric_eval
    ev17 = incr_numeric_eval(ctx)
    if ev17 is not None:
        bid_wrong = [w_ for w_ in ev17 if "'bid'" in w_ or "raises" in w_ or "_reset_rollover_fields" in w_]
        ctx.check("R1", not bid_wrong, f"_incr_numeric: bid := lexid.next_id(bid, padded by 1000 below 1000) on every bump ({ctx.notes.get('incr_numeric_cases')} flag / tag / build id combinations evaluated)",
                  "v2version._incr_numeric: the build id is not advanced with lexid.next_id", "; ".join(bid_wrong[:2]), loc=prog.function("v2version._incr_numeric").loc())
        ctx.check("R4", not bid_wrong, "_incr_numeric: ids below 1000 are lifted by 1000 before the successor is taken (evaluated for '0998' and '7')",
                  "v2version._incr_numeric: padding step for short ids vanished", "; ".join(bid_wrong[:2]), loc=prog.function("v2version._incr_numeric").loc())
    chk = ctx.check if ev17 is None else (lambda *a_, **k_: True)
    inc = prog.function("v2version._incr_numeric")
    ctx.visit(inc.fq)
    cfg = cfgs.get(inc.fq)
    pc = PathCond(cfg)
    cur = "cur_vinfo"
    bid_sets = []
    for n in cfg.nodes:
        if n.kind == "stmt" and isinstance(n.ast, ast.Assign) and isinstance(n.ast.value, ast.Call) and isinstance(n.ast.value.func, ast.Attribute) \
                and n.ast.value.func.attr == "_replace" and n.id in cfg.reachable():
            for kw in n.ast.value.keywords:
                if kw.arg == "bid":
                    bid_sets.append((n, kw.value))
    nxt = [(n, v) for n, v in bid_sets if isinstance(v, ast.Call) and prog.resolve_call(inc, v, count=False).name == "lexid.next_id"]
    pad = [(n, v) for n, v in bid_sets if (n, v) not in nxt]
    chk("R1", len(nxt) == 1, "_incr_numeric: one bid := lexid.next_id(...) update", "v2version._incr_numeric: the build id is not advanced with lexid.next_id", f"{[unparse(v) for _n, v in bid_sets]}", loc=inc.loc())
    if len(nxt) == 1:
        n, v = nxt[0]
        chk("R1", [unparse(a) for a in v.args] == [f"{cur}.bid"] and unparse(n.ast.targets[0]) == cur and unparse(n.ast.value.func.value) == cur,
                  "_incr_numeric: successor of the current id, stored back into the current version", "v2version._incr_numeric: successor not taken of / stored to the current build id", unparse(n.ast), loc=inc.loc(n.ast))
        r = pc.reach(n.id)
        chk("R1", r.is_true(), "_incr_numeric: the successor is taken on every bump (no flag guards it)", "v2version._incr_numeric: BUILD is advanced only under a condition",
                  f"reached iff {r.to_dnf()}", loc=inc.loc(n.ast), witness=(~r).models(1))
        # no normal return bypasses it
        wo = cfg.reachable(blocked_nodes=[n.id])
        chk("R1", cfg.exit not in wo, "_incr_numeric: every return passes the successor step", "v2version._incr_numeric: a return path skips the BUILD successor", "", loc=inc.loc())
    v1 = prog.function("v1version.incr")
    ctx.visit(v1.fq)
    g1 = cfgs.get(v1.fq)
    pc1 = PathCond(g1)
    hits = [n for n in g1.nodes if n.kind == "stmt" and isinstance(n.ast, ast.Assign) and "bid=lexid.next_id(cur_vinfo.bid)" in unparse(n.ast) and n.id in g1.reachable()]
    ctx.check("R1", len(hits) == 1, "v1 incr: bid := lexid.next_id(cur_vinfo.bid)", "v1version.incr: the build id is not advanced with lexid.next_id", "", loc=v1.loc())
    if len(hits) == 1:
        flags = [p for p in v1.all_params if p in ("major", "minor", "patch", "tag", "tag_num", "pin_date")]
        r = pc1.reach(hits[0].id).project(flags)
        ctx.check("R1", r.is_true(), "v1 incr: the successor does not depend on any flag", "v1version.incr: BUILD advanced only under a flag", r.to_dnf(), loc=v1.loc(hits[0].ast))
        rets = [n for n in g1.nodes if n.kind == "stmt" and isinstance(n.ast, ast.Return) and isinstance(n.ast.value, ast.Name)]
        wo = g1.reachable(blocked_nodes=[hits[0].id])
        ctx.check("R1", all(n.id not in wo for n in rets), "v1 incr: every version-returning path passes the successor step", "v1version.incr: a version is returned without advancing BUILD", "", loc=v1.loc())

    # after the successor step nothing puts another build id into the record: every `_replace(bid=...)` of the incr functions is the successor itself
    for fq_ in ("v2version.incr", "v1version.incr"):          # (_incr_numeric, with its padding step, is evaluated as a whole above)
        if not prog.has_function(fq_):
            continue
        f_ = prog.function(fq_)
        for c_ in ast.walk(f_.node):
            if isinstance(c_, ast.Call) and isinstance(c_.func, ast.Attribute) and c_.func.attr == "_replace":
                for kw_ in c_.keywords:
                    if kw_.arg == "bid":
                        is_succ = any(isinstance(x_, ast.Call) and unparse(x_.func).endswith("next_id") for x_ in ast.walk(shapes.resolve_alias(f_, kw_.value)))
                        ctx.check("R1", is_succ, f"{fq_}: `{unparse(c_)[:60]}` stores the successor", f"{fq_}: a build id other than the successor is stored in the bumped record",
                                  f"`{unparse(c_)[:80]}`: the version that is returned carries a BUILD that was not advanced (e.g. the old one), so BUILD does not grow on this bump", loc=f_.loc(c_),
                                  witness={"version": "v202103.1005-rc", "flag": "--tag final"})

    # ---------------------------------------------------------------- R2
    init = prog.const("version", "V2_FIELD_INITIAL_VALUES")
    ctx.check("R2", "bid" not in init, "'bid' is not in V2_FIELD_INITIAL_VALUES", "version.V2_FIELD_INITIAL_VALUES resets BUILD", f"{init}", loc="src/bumpver/version.py")
    rr = prog.function("v2version._reset_rollover_fields")
    ctx.visit(rr.fq)
    bad = [c for c in ast.walk(rr.node) if isinstance(c, ast.Call) and isinstance(c.func, ast.Attribute) and c.func.attr == "_replace" and any(kw.arg == "bid" for kw in c.keywords)]
    consts = [c for c in ast.walk(rr.node) if isinstance(c, ast.Constant) and c.value == "bid"]
    # the generic reset emits table entries only; a rule that names the build id next to it resets BUILD
    if prog.has_function("v2version._iter_reset_field_items"):
        irf = prog.function("v2version._iter_reset_field_items")
        ctx.visit(irf.fq)
        named = [c for c in ast.walk(irf.node) if isinstance(c, ast.Constant) and c.value == "bid"]
        ctx.check("R2", not named, "_iter_reset_field_items never names bid", "v2version._iter_reset_field_items resets BUILD",
                  "the reset generator mentions the field 'bid': the build number starts over when a part to its left changes, so a later version carries a smaller BUILD than an earlier one",
                  loc=irf.loc(named[0]) if named else irf.loc(), witness={"version": "v1.2.3.1006", "pattern": "vMAJOR.MINOR.PATCH.BUILD", "flag": "--patch"})
    ctx.check("R2", not bad and not consts, "_reset_rollover_fields never stores bid", "v2version._reset_rollover_fields resets BUILD", f"{[unparse(b) for b in bad]}", loc=rr.loc())

    # ---------------------------------------------------------------- R3
    vi = prog.klass("version.V2VersionInfo")
    ctx.check("R3", unparse(vi.field_annotations.get("bid", ast.Constant(None))) == "str", "V2VersionInfo.bid: str", "version.V2VersionInfo.bid is not a string field", "", loc="src/bumpver/version.py")
    pv = prog.function("v2version.parse_field_values_to_vinfo")
    ctx.visit(pv.fq)
    bd = shapes.single_def(pv, "bid")
    from checks.c02 import fold_reader
    folded = fold_reader(ctx, {"bid": "0099"})
    if folded is not None and "bid" in folded:
        ok = folded["bid"] == "0099" and isinstance(folded["bid"], str)          # the captured text, leading zeros kept
    else:
        ok = bd is not None and not any(isinstance(c, ast.Call) and unparse(c.func) == "int" for c in ast.walk(bd)) and "fvals['bid']" in unparse(bd)
    ctx.check("R3", ok, "parser: bid taken from the match group without int()", "v2version.parse_field_values_to_vinfo: BUILD is converted on read (leading zeros lost)", unparse(bd) if bd is not None else "", loc=pv.loc())
    from checks.c02 import part_tables
    pats, fields, fmts = part_tables(ctx)
    bid_parts = sorted(p for p, f in fields.items() if f == "bid")
    ctx.floor("R3", "parts of field bid", len(bid_parts), 2)
    for p in bid_parts:
        d = formats.describe_formatter(fmts[p])
        if p == "BUILD":
            ctx.check("R3", not d.canon and not d.pad and not d.last2, "BUILD is rendered verbatim (identity formatter)", "v2patterns.PART_FORMATS['BUILD'] alters the id (leading zeros lost)", f"{d}", loc=fmts[p].loc())
        else:
            ctx.ok("R3", f"part {p} of field bid renders with {d} (canonicalises only when rendering)")
    ctx.check("R3", pats.get("BUILD") == "[0-9]+", "BUILD recogniser keeps leading zeros ([0-9]+)", "v2patterns.PART_PATTERNS['BUILD'] changed", f"{pats.get('BUILD')}", loc="src/bumpver/v2patterns.py")

    # conversions of field values to int in the v2 engine must not reach bid: a loop `for k, v in D.items(): T[k] = int(v)`
    # may only walk the reset items (whose keys exclude bid, R2), never the whole version record
    n_conv = 0
    for fq_ in sorted(f for f in ctx.effects.sites if f.startswith("v2version.")):
        fn_ = prog.function(fq_)
        for loop in [n for n in walk_no_nested(fn_.node) if isinstance(n, ast.For)]:
            if not (isinstance(loop.target, ast.Tuple) and len(loop.target.elts) == 2 and all(isinstance(e, ast.Name) for e in loop.target.elts)):
                continue
            k_, v_ = loop.target.elts[0].id, loop.target.elts[1].id
            stores = [st for st in ast.walk(loop) if isinstance(st, ast.Assign) and isinstance(st.targets[0], ast.Subscript) and unparse(st.targets[0].slice) == k_
                      and any(isinstance(c, ast.Call) and unparse(c.func) == "int" and c.args and unparse(c.args[0]) == v_ for c in ast.walk(st.value))]
            if not stores:
                continue
            n_conv += 1
            src = shapes.inline(fn_, loop.iter, prog)
            whole = any(isinstance(c, ast.Call) and isinstance(c.func, ast.Attribute) and c.func.attr in ("_asdict", "__dict__") for c in ast.walk(src)) or \
                any(isinstance(c, ast.Call) and unparse(c.func) == "vars" for c in ast.walk(src))
            # a dict that was update()d with / built from the record is the whole record too
            base = loop.iter.func.value if isinstance(loop.iter, ast.Call) and isinstance(loop.iter.func, ast.Attribute) and loop.iter.func.attr == "items" else loop.iter
            if isinstance(base, ast.Name):
                for _st, tg, val in shapes.iter_assigns(fn_.node):
                    if unparse(tg) == base.id and any(isinstance(c, ast.Call) and isinstance(c.func, ast.Attribute) and c.func.attr == "_asdict" for c in ast.walk(val)):
                        whole = True
            reset_only = any(isinstance(c, ast.Call) and unparse(c.func).endswith("_iter_reset_field_items") for c in ast.walk(src))
            if not reset_only and isinstance(base, ast.Name):
                # a dict filled in this function only with V2_FIELD_INITIAL_VALUES entries (the merged form of the reset loop)
                fills = [st for st in ast.walk(fn_.node) if isinstance(st, ast.Assign) and isinstance(st.targets[0], ast.Subscript) and unparse(st.targets[0].value) == base.id]
                d0 = [v for _s, v in shapes.local_defs(fn_, base.id) if v is not None]
                reset_only = bool(fills) and len(d0) == 1 and isinstance(d0[0], ast.Dict) and not d0[0].keys and \
                    all(shapes.flows_from(fn_, st.value, lambda e: isinstance(e, ast.Call) and unparse(e.func).endswith("V2_FIELD_INITIAL_VALUES.get")) for st in fills)
            if whole:
                ctx.bad("R3", f"{fq_}: every all-digit string field of the version record is converted to int - BUILD included",
                        f"`for {k_}, {v_} in {unparse(loop.iter)}` walks the whole record: a zero-padded BUILD such as '01000' becomes 1000 "
                        f"(rendered without its padding, the next id sorts before the old one)", loc=fn_.loc(loop), witness={"BUILD": "01000"},
                        what=f"{fq_}: int conversion is limited to the reset items")
            else:
                ctx.require(reset_only, f"{fq_}: int conversion loop over `{unparse(loop.iter)}` - provenance not enumerated")
                ctx.ok("R3", f"{fq_}: int conversion is limited to the reset items")
    ctx.observe(f"int-converting field loops in v2version: {n_conv}")

    # ---------------------------------------------------------------- R4
    chk("R4", len(pad) == 1, "_incr_numeric: one padding update of bid", "v2version._incr_numeric: padding step for short ids vanished", f"{len(pad)}", loc=inc.loc())
    if len(pad) == 1 and len(nxt) == 1:
        pn, pv_ = pad[0]
        # value: str(int(cur.bid) + T)
        T1 = None
        if isinstance(pv_, ast.Call) and unparse(pv_.func) == "str" and isinstance(pv_.args[0], ast.BinOp) and isinstance(pv_.args[0].op, ast.Add) \
                and unparse(pv_.args[0].left) == f"int({cur}.bid)" and isinstance(pv_.args[0].right, ast.Constant):
            T1 = pv_.args[0].right.value
        atoms = [a for a in pc.atoms if a.startswith(f"int({cur}.bid) <")]
        T2 = None
        if len(atoms) == 1:
            tree = ast.parse(atoms[0], mode="eval").body
            if isinstance(tree.comparators[0], ast.Constant):
                T2 = tree.comparators[0].value
        ok = T1 is not None and T1 == T2 and str(T1) == "1" + "0" * (len(str(T1)) - 1)
        chk("R4", ok, f"padding: int(bid) < {T2} -> str(int(bid) + {T1}), the same power of ten", "v2version._incr_numeric: padding threshold and offset disagree / are not a power of ten",
                  f"threshold {T2}, offset {T1}", loc=inc.loc(pn.ast))
        if len(atoms) == 1:
            chk("R4", pc.reach(pn.id).equiv(BF.var(atoms[0])), "padding applied exactly when the id is below the threshold", "v2version._incr_numeric: padding applied under another condition", pc.reach(pn.id).to_dnf(), loc=inc.loc(pn.ast))
        chk("R4", nxt[0][0].id in cfg.reachable(pn.id) and pn.id not in cfg.reachable(nxt[0][0].id), "padding precedes the successor", "v2version._incr_numeric: padding happens after the successor was taken", "", loc=inc.loc(pn.ast))
