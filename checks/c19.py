"""C19 - `init` always produces a configuration that bumpver itself can use."""
from __future__ import annotations

import ast
import configparser
import io
import re
import typing as T

try:
    import tomllib
except ImportError:  # pragma: no cover
    tomllib = None  # type: ignore

from sa import formats, relang as rl, shapes
from sa.boolfn import BF
from sa.model import AnalysisError, const_str, unparse, walk_no_nested
from sa.pathcond import PathCond

TECHNIQUE = "path conditions of cli.init, effect summary, constant-mode check of the writer; the init templates (data of the program) are parsed with the stdlib parser of their format and compared with what the readers consume; language check of the initial version; ordering of the file-choice loops"
EXPLANATION = (
    "(R1) write_content opens the chosen file in append mode and is the only file write reachable from `init`; in cli.init it "
    "is reached exactly when no configuration exists and --dry is off, --dry ends with exit 0 before any write, an existing "
    "configuration ends with exit 1.  (R2) Every base template, with its slots filled, concatenated with each applicable "
    "per-file snippet, parses with the stdlib parser of its format; its section is one the reader accepts, every key is one "
    "_parse_config consumes, booleans are of the reader's kind, and the snippet for the config file itself carries the "
    "current_version pattern.  (R3) The initial version (strftime('%Y.1001-alpha')) is in the language of the template's "
    "version_pattern, built from the part regexes.  (R4) _pick_config_filepath considers exactly SUPPORTED_CONFIGS, prefers "
    "files that already hold a bumpver section with a current_version before falling back to mere existence and finally to "
    "bumpver.toml, and default_config has a self-snippet for every candidate file of each format."
)
LEVEL_NOTE = "Not decided: the 2^8 x content matrix of which file wins (value level); R4 fixes the ordering logic it follows from. Trusted: tomllib/configparser parse as the readers' libraries do for these templates."


def _fill(tmpl: str) -> str:
    return tmpl.format(initial_version="2026.1001-alpha", default_tag_scope="default")


def logging_setup_rule(ctx, rule: str) -> None:
    """cli._configure_logging is the first call of every command (init included): what reaches `logging.basicConfig(level=...)`
    is a level of the logging module on every path, what reaches `format=` / `datefmt=` is a text.  (Under pytest the root logger
    already has handlers and basicConfig does nothing, so no test sees a swapped pair.)"""
    prog = ctx.prog
    fn = prog.function("cli._configure_logging")
    ctx.visit(fn.fq)
    calls = [c for c in walk_no_nested(fn.node) if isinstance(c, ast.Call) and unparse(c.func) == "logging.basicConfig"]
    ctx.floor(rule, "logging.basicConfig calls in cli._configure_logging", len(calls), 1)

    def kinds(e: ast.AST, depth: int = 3) -> T.Set[str]:
        if isinstance(e, ast.Constant):
            return {"text" if isinstance(e.value, str) else "number" if isinstance(e.value, int) and not isinstance(e.value, bool) else "other"}
        if isinstance(e, ast.JoinedStr):
            return {"text"}
        if isinstance(e, ast.Attribute) and unparse(e.value) == "logging" and e.attr.isupper():
            return {"level"}
        if isinstance(e, ast.IfExp):
            return kinds(e.body, depth) | kinds(e.orelse, depth)
        if isinstance(e, ast.Name) and depth > 0:
            defs = [v for _st, v in shapes.local_defs(fn, e.id) if v is not None]
            return set().union(*[kinds(d, depth - 1) for d in defs]) if defs else {"unknown"}
        return {"unknown"}
    for c in calls:
        kw = shapes.kwargs_of(c)
        for name, want in (("level", {"level", "number"}), ("format", {"text"}), ("datefmt", {"text"})):
            if name not in kw:
                continue
            got = kinds(kw[name])
            ctx.check(rule, "unknown" in got or got <= want, f"_configure_logging: basicConfig({name}=...) receives {sorted(got)}",
                      f"cli._configure_logging: logging.basicConfig receives the wrong kind of value for `{name}`",
                      f"`{name}={unparse(kw[name])}` is {sorted(got)}: logging raises on the first call of every command (`init` writes nothing, `update` never starts)",
                      loc=fn.loc(c), witness={"command": "bumpver init"})


def ini_grammar_rule(ctx, rule: str) -> None:
    """config._ConfigParser accepts what configparser accepts by default: `delimiters` still contains '=' and ':', `comment_prefixes`
    '#' and ';' - wherever the reader is configured (construction in _parse_cfg, or a super().__init__ call of the class)."""
    prog = ctx.prog
    cp = prog.klass("config._ConfigParser")
    sites: T.List[T.Tuple[ast.Call, str]] = []
    pf = prog.function("config._parse_cfg")
    ctx.visit(pf.fq)
    for c in ast.walk(pf.node):
        if isinstance(c, ast.Call) and unparse(c.func) in ("_ConfigParser", "configparser.RawConfigParser", "configparser.ConfigParser"):
            sites.append((c, pf.loc(c)))
    ctx.floor(rule, "INI reader constructions in _parse_cfg", len(sites), 1)
    init = cp.methods.get("__init__")
    if init is not None:
        for c in ast.walk(init.node):
            if isinstance(c, ast.Call) and unparse(c.func).endswith("__init__"):
                sites.append((c, init.loc(c)))
    want = {"delimiters": {"=", ":"}, "comment_prefixes": {"#", ";"}}
    for c, loc in sites:
        for kw in c.keywords:
            if kw.arg not in want:
                continue
            try:
                val = prog.fold(pf.module, kw.value)
            except Exception:
                val = None
            ok = val is not None and not isinstance(val, str) and want[kw.arg] <= set(val)
            ctx.check(rule, ok, f"INI reader: {kw.arg} keeps {sorted(want[kw.arg])}", f"config._ConfigParser: the INI grammar is narrowed ({kw.arg})",
                      f"`{unparse(c)[:80]}`: an existing setup.cfg whose unrelated sections use the other spelling (`key: value`, `; comment`) raises a parsing error, "
                      f"so `init` / `show` fail in that project directory", loc=loc, witness={"setup.cfg": "[metadata]\nname: demo\n"})
    ctx.ok(rule, f"INI reader grammar examined at {len(sites)} configuration site(s)")


def run(ctx) -> None:
    prog, cfgs, effects = ctx.prog, ctx.cfgs, ctx.effects
    ctx.rule("R1", "append-only write, only under (no config and not dry); dry exits 0 without writing; existing config exits 1")
    ctx.rule("R2", "templates parse with the stdlib parser; section/keys/booleans are what the readers consume; self pattern present")
    ctx.rule("R3", "initial version is in the language of the template's version pattern")
    ctx.rule("R6", "prerequisite: what init writes is what the readers accept - section names of templates and readers agree, whole sections are taken (C18/R2, R3)")
    from sa.report import run_prerequisite as _rp19
    _rp19(ctx, "C18", ("R2", "R3"), "R6")
    ctx.rule("R5", "in any project directory: a pyproject.toml without a bumpver section (other [tool.*] tables) is read without an error (C18's TOML section rule)")
    from checks.c18 import toml_section_eval
    toml_section_eval(ctx, "R5")
    # ... and `show` reports what init wrote: a repository further up the directory tree is not this project's VCS (C11's marker rule)
    from checks.c11 import vcs_marker_rule
    vcs_marker_rule(ctx, "R5")
    # ... and an existing setup.cfg with unrelated content in either key/value style (`key = value`, `key: value`) and either comment style is read
    # without an error: the INI reader keeps configparser's grammar (no narrower delimiters / comment prefixes)
    ini_grammar_rule(ctx, "R5")
    ctx.rule("R7", "every command gets past its first step: logging.basicConfig receives a logging level as level= and a text as format=")
    logging_setup_rule(ctx, "R7")
    # "in any project directory": looking through the candidate files must not fail on a file that is not UTF-8 (a Latin-1 setup.cfg
    # next to the pyproject.toml that is going to be used): the sniffing reads bytes, or decodes leniently
    pk_fn = prog.function("config._pick_config_filepath")
    sniff = [s_ for s_ in effects.sites[pk_fn.fq] if s_.effect == "FS_READ"]
    ctx.floor("R4", "reads of candidate files in _pick_config_filepath", len(sniff), 1)
    for s_ in sniff:
        mode = str(s_.detail.get("mode") or "")
        kw_ = shapes.kwargs_of(s_.node) if isinstance(s_.node, ast.Call) else {}
        lenient = "errors" in kw_ and const_str(kw_["errors"]) in ("ignore", "replace", "surrogateescape", "backslashreplace")
        binary = "b" in mode or s_.detail.get("via") in ("read_bytes", "Path.read_bytes")
        ctx.check("R4", binary or lenient, f"_pick_config_filepath: candidates are sniffed as bytes (mode {mode!r})",
                  "config._pick_config_filepath: a candidate file is decoded while looking for a section",
                  f"`{unparse(s_.node)[:70]}` decodes every existing candidate: a file that is not UTF-8 and would never be chosen makes `init`, `show` and `update` die with "
                  f"UnicodeDecodeError", loc=s_.loc, witness={"files": "pyproject.toml (UTF-8) + setup.cfg (Latin-1: author = Jörg)"})
    ctx.rule("R4", "file choice: candidates == SUPPORTED_CONFIGS; configured files first, then existing, then bumpver.toml; self-snippets cover the candidates")

    # ---------------------------------------------------------------- R1
    wc = prog.function("config.write_content")
    ctx.visit(wc.fq, "cli.init")
    writes = [s for s in effects.sites[wc.fq] if s.effect == "FS_WRITE"]
    ctx.check("R1", len(writes) == 1 and writes[0].detail.get("mode") in ("at", "a", "ta"), f"write_content opens with mode {writes[0].detail.get('mode') if writes else None!r} (append)",
              "config.write_content does not open the config file in append mode (prior content is lost)", f"{[s.detail for s in writes]}", loc=wc.loc())
    if writes:
        call = writes[0].node
        ctx.check("R1", isinstance(call.func, ast.Attribute) and unparse(call.func.value) == f"{wc.params[0]}.config_filepath", "write_content writes to ctx.config_filepath", "config.write_content writes to another path", unparse(call), loc=wc.loc(call))
        enc = [kw for kw in call.keywords if kw.arg == "encoding"]
        ctx.check("R1", bool(enc) and const_str(enc[0].value) == "utf-8", "write_content: encoding='utf-8'", "config.write_content: no explicit utf-8", "", loc=wc.loc(call))
    wr = [c for c in ast.walk(wc.node) if isinstance(c, ast.Call) and isinstance(c.func, ast.Attribute) and c.func.attr == "write"]
    ok = len(wr) == 1 and shapes.flows_from(wc, wr[0].args[0], lambda e: isinstance(e, ast.Call) and unparse(e.func) == "default_config")
    ctx.check("R1", ok, "write_content writes default_config(ctx) (optionally preceded by a newline)", "config.write_content writes something else than the generated default config", "", loc=wc.loc())
    # appended to an existing file the section must start on a line of its own: a "\n" is put in front whenever the file
    # exists - whatever its last byte is (its last line may lack the newline)
    wcfg = cfgs.get(wc.fq)
    wpc = PathCond(wcfg)
    ex_atoms = [a_ for a_ in wpc.atoms if a_.replace("is_file", "exists").endswith("config_filepath.exists()")]
    pre = [n for n in wcfg.nodes if n.kind == "stmt" and n.id in wcfg.reachable() and isinstance(n.ast, (ast.Assign, ast.AugAssign))
           and any(isinstance(c, ast.Constant) and isinstance(c.value, str) and c.value.startswith("\n") for c in ast.walk(n.ast.value))
           and any(isinstance(c, ast.BinOp) and isinstance(c.op, ast.Add) for c in ast.walk(n.ast.value))]
    if len(ex_atoms) == 1 and len(pre) == 1:
        r = wpc.reach(pre[0].id).drop_unused()
        ctx.check("R1", r.equiv(BF.var(ex_atoms[0])), "write_content: a newline precedes the section exactly when the file already exists",
                  "config.write_content: the separating newline in front of the new section depends on more than the file's existence",
                  f"the newline is added when {r.to_dnf()}: for an existing file whose last line has no trailing newline the `[bumpver]` header is glued onto that line "
                  f"and the file can no longer be parsed", loc=wc.loc(pre[0].ast), witness={"setup.cfg (no final newline)": "[metadata]\nname = x"})
    else:
        # conditional-expression form: `"\n" if <file exists> else ""` (+ content)
        ife = [n for n in ast.walk(wc.node) if isinstance(n, ast.IfExp) and unparse(n.test).replace("is_file", "exists").endswith("config_filepath.exists()")
               and isinstance(n.body, ast.Constant) and isinstance(n.body.value, str) and n.body.value.startswith("\n")]
        has_nl = any(isinstance(c, ast.Constant) and isinstance(c.value, str) and c.value.startswith("\n") for c in ast.walk(wc.node))
        if ife:
            ctx.ok("R1", "write_content: a newline precedes the section exactly when the file already exists (conditional expression)")
        elif not has_nl:
            ctx.bad("R1", "config.write_content: no newline is put in front of a section appended to an existing file", "the `[bumpver]` header is glued onto the file's last line when that lacks a newline",
                    loc=wc.loc(), what="write_content: a newline precedes the section when the file exists")
        else:
            raise AnalysisError("C19/R1: write_content newline prefix shape not enumerated")
    init = prog.function("cli.init")
    isum = effects.effects_of(init.fq)
    others = [c for e, c in isum.items() if e == "FS_WRITE" and not c[-1].startswith("config.write_content")]
    ctx.check("R1", "FS_WRITE" in isum and not others, "init: the only file write in its transitive effects is config.write_content", "cli.init: writes files other than through write_content", f"{isum.get('FS_WRITE')}", loc=init.loc())
    bad = sorted(k for k in isum if k.startswith("VCS_MUTATE") or k in ("HOOK", "PROC"))
    ctx.check("R1", not bad, "init: no VCS mutation / hook / subprocess", "cli.init: has VCS or process side effects", f"{bad}", loc=init.loc())
    g = cfgs.get(init.fq)
    pc = PathCond(g)
    ctx.require("cfg" in pc.atoms and "dry" in pc.atoms, f"init: atoms changed {pc.atoms}")
    CFG, DRY = BF.var("cfg"), BF.var("dry")
    wcalls = shapes.find_calls(prog, init, wc.fq)
    ctx.check("R1", len(wcalls) == 1, "init: one write_content call", "cli.init: write_content call count changed", f"{len(wcalls)}", loc=init.loc())
    if wcalls:
        r = pc.reach(g.node_containing(wcalls[0])).project(["cfg", "dry"])
        ctx.check("R1", r.equiv(~CFG & ~DRY), "init: write_content reached iff no configuration and not --dry", "cli.init: writes under the wrong condition", f"reached iff {r.to_dnf()}", loc=init.loc(wcalls[0]),
                  witness=r.diff_witness(~CFG & ~DRY))
        ctx.check("R1", unparse(wcalls[0].args[0]) == "ctx", "init: write_content(ctx) - the context that was inspected", "cli.init: writes for another context", "", loc=init.loc(wcalls[0]))
    for sid in g.sysexits:
        if sid not in g.reachable():
            continue
        code = g.nodes[sid].extra.get("code")
        r = pc.reach(sid).project(["cfg", "dry"])
        if code == 0:
            ctx.check("R1", r.equiv(~CFG & DRY), "init: exit 0 exactly for --dry without configuration", "cli.init: exit 0 under the wrong condition", r.to_dnf(), loc=init.loc(g.nodes[sid].stmt))
        else:
            ctx.check("R1", r.equiv(CFG) and code not in (None, False, "?"), f"init: exit {code} exactly when a configuration already exists", "cli.init: an existing configuration is not refused with a non-zero exit",
                      f"exit {code} iff {r.to_dnf()}", loc=init.loc(g.nodes[sid].stmt))
    ic = shapes.find_calls(prog, init, "config.init")
    ok = len(ic) == 1 and any(kw.arg == "cfg_missing_ok" and isinstance(kw.value, ast.Constant) and kw.value.value is True for kw in ic[0].keywords)
    ctx.check("R1", ok, "init: config.init(project_path='.', cfg_missing_ok=True)", "cli.init: configuration lookup changed", "", loc=init.loc())

    # ---------------------------------------------------------------- R2
    dc = prog.function("config.default_config")
    ctx.visit(dc.fq)
    tables: T.Dict[str, T.Dict[str, str]] = {}
    for n in ast.walk(dc.node):
        if isinstance(n, ast.If):
            cs = shapes.compare_shape(n.test)
            if cs and cs[0] == "==" and isinstance(cs[2], ast.Constant) and cs[2].value in ("cfg", "toml") and unparse(cs[1]) in ("fmt", "ctx.config_format"):
                for st in ast.walk(ast.Module(body=n.body, type_ignores=[])):
                    if isinstance(st, ast.Assign) and unparse(st.targets[0]) == "default_pattern_strs_by_filename":
                        val = shapes.inline(dc, st.value, prog, consts=False)
                        try:
                            tab = prog.fold(dc.module, val)
                        except AnalysisError:
                            continue
                        if isinstance(tab, dict):
                            tables[cs[2].value] = dict(tab)
    ctx.require(set(tables) == {"cfg", "toml"}, f"default_config: per-format snippet tables not found ({sorted(tables)})")
    bases = {"cfg": ["DEFAULT_CONFIGPARSER_BASE_TMPL"], "toml": ["DEFAULT_PYPROJECT_TOML_BASE_TMPL", "DEFAULT_BUMPVER_TOML_BASE_TMPL"]}
    consumed = {"current_version", "version_pattern", "commit_message", "tag_message", "tag_scope", "pre_commit_hook", "post_commit_hook", "commit", "tag", "push", "file_patterns"}
    pcf_src = unparse(prog.function("config._parse_config").node)
    consumed = {k for k in consumed if f"'{k}'" in pcf_src} | {"file_patterns"}
    ctx.floor("R2", "keys consumed by _parse_config", len(consumed), 11)
    # default_config appends the snippet of every file that exists, one after the other: every ordered pair of snippets still parses
    n_pairs = 0
    for fmt, names in bases.items():
        for name in names:
            base2 = _fill(prog.const("config", name))
            for fa, sa_ in sorted(tables[fmt].items()):
                for fb, sb_ in sorted(tables[fmt].items()):
                    if fa == fb:
                        continue
                    n_pairs += 1
                    text2 = base2 + sa_ + sb_
                    try:
                        if fmt == "toml":
                            tomllib.loads(text2)
                            fps2 = None
                        else:
                            cp2 = configparser.RawConfigParser()
                            cp2.optionxform = str  # type: ignore
                            cp2.read_file(io.StringIO(text2))
                            fps2 = [k for k, _v in cp2.items("bumpver:file_patterns")] if cp2.has_section("bumpver:file_patterns") else []
                        if fps2 is not None and not ({fa, fb} <= set(fps2)):
                            raise ValueError(f"entries {fps2} instead of {fa} and {fb} (a snippet does not end its last line)")
                    except Exception as ex2:
                        ctx.bad("R2", f"config.{name}: the snippets for {fa} and {fb}, appended one after the other, do not parse as {fmt}",
                                f"{type(ex2).__name__}: {str(ex2)[:120]} - in a project that has both files `init` writes a configuration that `show` cannot read",
                                loc="src/bumpver/config.py", witness={"files": [fa, fb]}, what=f"{name} + snippet[{fa}] + snippet[{fb}] parses as {fmt}")
    ctx.floor("R2", "ordered pairs of file snippets parsed after a base template", n_pairs, 20)
    n_t = n_s = 0
    self_files = {"cfg": {"setup.cfg"}, "toml": {"pyproject.toml", "bumpver.toml", ".bumpver.toml", "pycalver.toml"}}
    for fmt, names in bases.items():
        for name in names:
            n_t += 1
            base = _fill(prog.const("config", name))
            for fname, snippet in sorted(tables[fmt].items()):
                n_s += 1
                text = base + snippet + "\n"
                what = f"{name} + snippet[{fname}] parses as {fmt}"
                try:
                    if fmt == "toml":
                        data = tomllib.loads(text)
                        sec = data.get("tool", {}).get("bumpver") if "tool" in data else data.get("bumpver")
                        secname = "tool.bumpver" if "tool" in data else "bumpver"
                        fps = (sec or {}).get("file_patterns", {})
                    else:
                        cp = configparser.RawConfigParser()
                        cp.optionxform = str  # type: ignore
                        cp.read_file(io.StringIO(text))
                        secname = "bumpver" if cp.has_section("bumpver") else None
                        sec = dict(cp.items("bumpver")) if secname else None
                        fps = {k: [l.strip() for l in v.splitlines() if l.strip()] for k, v in cp.items("bumpver:file_patterns")} if cp.has_section("bumpver:file_patterns") else {}
                except Exception as ex:
                    ctx.bad("R2", f"config.{name} + snippet for {fname} does not parse as {fmt}", f"{type(ex).__name__}: {ex}", loc="src/bumpver/config.py", what=what)
                    continue
                ok = sec is not None
                keys = set(sec or {}) - {"file_patterns"}
                ok = ok and keys <= consumed and {"current_version", "version_pattern"} <= keys
                ctx.check("R2", ok, what + f": section [{secname}], keys ⊆ consumed", f"config.{name}: generated configuration has keys/sections the readers do not consume",
                          f"section {secname}, unknown keys {sorted(keys - consumed)}", loc="src/bumpver/config.py")
                if sec:
                    for b in ("commit", "tag", "push"):
                        v = sec.get(b)
                        good = (v is True) if fmt == "toml" else (isinstance(v, str) and v.lower() in ("yes", "true", "1", "on"))
                        ctx.check("R2", good, f"{name}: {b} is a {'TOML boolean' if fmt == 'toml' else 'true-spelling the INI reader accepts'}", f"config.{name}: `{b}` is not a boolean the {fmt} reader understands", f"{v!r}", loc="src/bumpver/config.py")
                    ctx.check("R2", fname in fps and len(fps[fname]) >= 1, f"{name}: snippet registers patterns for {fname}", f"config snippet for {fname} does not register it under file_patterns", f"{fps}", loc="src/bumpver/config.py")
                    if fname in self_files[fmt]:
                        pats = fps.get(fname, [])
                        ctx.check("R2", any(re.fullmatch(r'current_version = "\{version\}"', p.strip()) for p in pats), f"{name}: self snippet for {fname} carries current_version = \"{{version}}\"",
                                  f"config snippet for {fname} lacks the current_version pattern", f"{pats}", loc="src/bumpver/config.py")
    ctx.floor("R2", "base templates", n_t, 3)
    ctx.floor("R2", "template x snippet combinations", n_s, 11)

    # ---------------------------------------------------------------- R3
    iv = prog.function("config._initial_version")
    ctx.visit(iv.fq)
    fmts_ = [const_str(c.args[0]) for c in ast.walk(iv.node) if isinstance(c, ast.Call) and isinstance(c.func, ast.Attribute) and c.func.attr == "strftime" and c.args]
    ctx.require(len(fmts_) == 1 and fmts_[0] is not None, "_initial_version: strftime format not found")
    f = fmts_[0]
    ctx.require(f.count("%") == 1 and re.search(r"%[YG]", f) is not None, f"_initial_version: format {f!r} not modelled")
    year_dir = re.search(r"%([YG])", f).group(1)
    # the templates' pattern starts with YYYY, the *calendar* year: `show` must report this year's version on every day
    ctx.check("R3", year_dir == "Y", "_initial_version renders the calendar year (%Y), which is what the template's YYYY part means",
              "config._initial_version: the initial version is not rendered from the calendar year",
              f"format {f!r}: %G is the ISO week-numbering year - on days around New Year (2027-01-01, 2024-12-30) `init` writes and `show` reports last or next year's initial version",
              loc=iv.loc(), witness={"date": "2027-01-01", "%G": 2026, "%Y": 2027})
    pre, post = f.split("%" + year_dir)
    img = rl.Cat([rl.lit(pre), rl.from_regex("[1-9][0-9]{3}"), rl.lit(post)])
    v2p = prog.const("v2patterns", "PART_PATTERNS")
    for name in sum(bases.values(), []):
        t = prog.const("config", name)
        m = re.search(r'version_pattern = "([^"]+)"', t)
        ctx.require(m is not None, f"{name}: version_pattern line not found")
        pat = m.group(1)
        rx = _pattern_regex(ctx, pat, v2p)
        w = rl.included(img, rl.from_regex(rx))
        ctx.check("R3", w is None, f"{name}: initial version {f!r} ∈ L({pat!r})", f"config.{name}: the initial version does not match the template's version_pattern", f"{w!r} not matched by {rx!r}", loc="src/bumpver/config.py", witness=w)
        ctx.check("R3", 'current_version = "{initial_version}"' in t, f"{name}: current_version slot is the initial version", f"config.{name}: current_version is not the generated initial version", "", loc="src/bumpver/config.py")
    calls = shapes.find_calls(prog, dc, "config._initial_version")
    ctx.check("R3", len(calls) == 1, "default_config fills initial_version=_initial_version()", "config.default_config: initial version not generated", "", loc=dc.loc())

    # ---------------------------------------------------------------- R4
    pk = prog.function("config._pick_config_filepath")
    ctx.visit(pk.fq)
    sup = prog.const("config", "SUPPORTED_CONFIGS")
    cands = shapes.single_def(pk, "config_candidates")
    ctx.require(cands is not None, "_pick_config_filepath: candidate list not found")
    if not isinstance(cands, ast.List):
        # a comprehension / concatenation over constant names: fold it with the directory as a symbol
        class _Dir:
            def __sym_div__(self, other: T.Any) -> str:
                return f"<dir>/{other}"
        try:
            folded = prog.fold(pk.module, cands, {pk.params[0]: _Dir()})
        except AnalysisError as ex_:
            raise AnalysisError(f"C19: _pick_config_filepath: candidate list not foldable: {ex_}")
        ctx.require(isinstance(folded, list) and all(isinstance(x_, str) and x_.startswith("<dir>/") for x_ in folded), "_pick_config_filepath: candidates are not <dir>/<name>")
        cands = ast.List(elts=[ast.BinOp(left=ast.Name(id=pk.params[0], ctx=ast.Load()), op=ast.Div(), right=ast.Constant(value=x_[6:])) for x_ in folded], ctx=ast.Load())
    names = []
    for e in cands.elts:
        ctx.require(isinstance(e, ast.BinOp) and isinstance(e.op, ast.Div) and unparse(e.left) == pk.params[0] and const_str(e.right), "candidate shape not enumerated")
        names.append(const_str(e.right))
    ctx.check("R4", set(names) == set(sup) and len(names) == len(set(names)), "candidates == SUPPORTED_CONFIGS (as a set)", "config._pick_config_filepath: candidates differ from SUPPORTED_CONFIGS", f"{names} vs {sup}", loc=pk.loc())
    decided_pick = pick_config_eval(ctx, "R4", names)
    if not decided_pick:
        loops = [n for n in pk.node.body if isinstance(n, ast.For)]
        ctx.check("R4", len(loops) == 2 and all(unparse(l.iter) == "config_candidates" for l in loops), "two passes over the candidates", "config._pick_config_filepath: pass structure changed", "", loc=pk.loc())
        if len(loops) == 2:
            first, second = loops
            gk = cfgs.get(pk.fq)
            pcg = PathCond(gk)
            rets1 = [n for n in ast.walk(first) if isinstance(n, ast.Return)]
            ctx.require(len(rets1) == 1 and unparse(rets1[0].value) == unparse(first.target), "first pass: return shape changed")
            r = pcg.reach(gk.node_containing(rets1[0].value)).drop_unused()
            ex_atom = [a for a in r.atoms if a.endswith(".exists()")]
            sec_atoms = [a for a in r.atoms if a not in ex_atom]
            ctx.require(len(ex_atom) == 1 and len(sec_atoms) >= 1, f"first pass: atoms {r.atoms}")

            def inline(e: ast.AST, depth: int = 0) -> ast.AST:
                """Replace single-assignment boolean locals by their definitions."""
                if isinstance(e, ast.Name) and depth < 5:
                    d = shapes.single_def(pk, e.id)
                    if d is not None:
                        return inline(d, depth + 1)
                    return e
                if isinstance(e, ast.BoolOp):
                    return ast.BoolOp(op=e.op, values=[inline(v, depth) for v in e.values])
                if isinstance(e, ast.UnaryOp) and isinstance(e.op, ast.Not):
                    return ast.UnaryOp(op=e.op, operand=inline(e.operand, depth))
                return e

            def classify(leaf: ast.AST) -> T.Tuple[str, bool]:
                if isinstance(leaf, ast.Compare) and isinstance(leaf.ops[0], (ast.In, ast.NotIn)) and isinstance(leaf.left, ast.Constant) and isinstance(leaf.left.value, bytes):
                    return leaf.left.value.decode(), isinstance(leaf.ops[0], ast.In)
                # a compiled expression searched in the file content: decided on the header spellings the readers accept
                e = leaf
                while isinstance(e, ast.Call) and unparse(e.func) == "bool" and len(e.args) == 1:
                    e = e.args[0]
                pol = True
                if isinstance(e, ast.Compare) and len(e.ops) == 1 and isinstance(e.ops[0], (ast.Is, ast.IsNot)) and isinstance(e.comparators[0], ast.Constant) and e.comparators[0].value is None:
                    pol = isinstance(e.ops[0], ast.IsNot)
                    e = e.left
                if isinstance(e, ast.Call) and isinstance(e.func, ast.Attribute) and e.func.attr in ("search", "findall", "finditer") and isinstance(e.func.value, ast.Name) \
                        and e.func.value.id in pk.module.consts:
                    rx = pk.module.consts[e.func.value.id][-1]
                    if isinstance(rx, ast.Call) and unparse(rx.func) == "re.compile" and rx.args and isinstance(rx.args[0], ast.Constant) and isinstance(rx.args[0].value, (bytes, str)):
                        fl_node = rx.args[1] if len(rx.args) > 1 else next((k.value for k in rx.keywords if k.arg == "flags"), None)
                        flags = 0
                        for nm in (unparse(fl_node).replace("re.", "").split("|") if fl_node is not None else []):
                            flags |= getattr(re, nm.strip(), 0)
                        cre = re.compile(rx.args[0].value, flags)
                        as_b = isinstance(rx.args[0].value, bytes)
                        heads = ["[bumpver]", "[tool.bumpver]", "[pycalver]"]
                        variants = ["{h}\n", "{h}\r\n", "{h} \n", "{h}\t\r\n", "{h}"]      # LF, CRLF, trailing blanks, end of file
                        missed = []
                        for h in heads:
                            for v_ in variants:
                                txt = "[metadata]\nname = x\n\n" + v_.format(h=h) + ("current_version = 1\n" if v_ != "{h}" else "")
                                if not cre.search(txt.encode() if as_b else txt):
                                    missed.append(v_.format(h=h))
                        ctx.check("R4", not missed, f"section detection `{unparse(rx)[:50]}` finds every header spelling the readers accept",
                                  "config._pick_config_filepath: an existing bumpver section is not recognised in some files the readers accept",
                                  f"`{unparse(rx)[:80]}` misses {missed[:4]!r}: a configured file saved with CRLF line endings or with blanks after the header is not preferred; "
                                  f"`show` reads another file and `init` writes a second configuration", loc=pk.loc(leaf), witness={"header line": missed[0]} if missed else None)
                        return "SECTION", pol
                raise AnalysisError(f"C19/R4: section test leaf not enumerated: {unparse(leaf)}")

            def unfold_any(e: ast.AST) -> ast.AST:
                """`any(m in data for m in CONST)` -> `c1 in data or c2 in data ...`"""
                class U(ast.NodeTransformer):
                    def visit_Call(self, node: ast.Call) -> ast.AST:
                        self.generic_visit(node)
                        if unparse(node.func) in ("any", "all") and len(node.args) == 1 and isinstance(node.args[0], (ast.GeneratorExp, ast.ListComp)) and len(node.args[0].generators) == 1 \
                                and isinstance(node.args[0].generators[0].target, ast.Name) and not node.args[0].generators[0].ifs:
                            g_ = node.args[0].generators[0]
                            try:
                                items = prog.fold(pk.module, g_.iter)
                            except AnalysisError:
                                return node
                            if isinstance(items, (tuple, list)) and items and all(isinstance(x_, (bytes, str)) for x_ in items):
                                import copy as _cp

                                class S(ast.NodeTransformer):
                                    def __init__(self, v_: T.Any):
                                        self.v_ = v_
                                    def visit_Name(self, n_: ast.Name) -> ast.AST:
                                        return ast.Constant(value=self.v_) if n_.id == g_.target.id else n_
                                vals_ = [S(x_).visit(_cp.deepcopy(node.args[0].elt)) for x_ in items]
                                return ast.BoolOp(op=ast.Or() if unparse(node.func) == "any" else ast.And(), values=vals_) if len(vals_) > 1 else vals_[0]
                        return node
                return U().visit(e)
            # the section test as the path condition states it (atoms may be the operands of a short-circuit test or one
            # boolean local): each atom is replaced by what it means in terms of the byte strings searched for
            meaning = {a: shapes.bool_expr_bf(unfold_any(inline(ast.parse(a, mode="eval").body)), classify) for a in sec_atoms}
            sec = r.exists(ex_atom[0]).project(sec_atoms).compose(meaning) if sec_atoms else BF.true()
            # decided on sample contents: the atoms are "this byte string occurs in the file"; a file is to be preferred iff it holds
            # one of the readers' section headers and a current_version key
            heads = ["[bumpver]", "[tool.bumpver]", "[pycalver]"]
            foreign = ["[bumpversion]", "[tool.bumpversion]", "[bumpver2]", "[tool.bumpver-next]", "[metadata]"]
            samples = []
            for h_ in heads + foreign:
                for cv_ in (True, False):
                    for end_ in ("\n", "\r\n"):
                        txt_ = "[metadata]" + end_ + "name = x" + end_ + end_ + h_ + end_ + ("current_version = 1" + end_ if cv_ else "version = 1" + end_)
                        samples.append((txt_, h_ in heads and cv_, h_ in heads))
            wrong = None
            for txt_, want_, has_head_ in samples:
                f_ = sec
                for a_ in list(sec.atoms):
                    f_ = f_.restrict(a_, has_head_ if a_ == "SECTION" else (a_.encode() in txt_.encode()))
                if f_.drop_unused().is_true() != want_ and wrong is None:
                    wrong = {"content": txt_, "preferred": f_.drop_unused().is_true(), "expected": want_}
            ctx.check("R4", r.implies(BF.var(ex_atom[0])) and wrong is None,
                      f"first pass returns the first existing candidate holding a bumpver/pycalver section and current_version  [{len(samples)} sample contents]",
                      "config._pick_config_filepath: preference for already configured files changed",
                      f"returns when {r.to_dnf()} with section test {sec.to_dnf()}; differs for {wrong!r}: e.g. a pyproject.toml of another tool (`[tool.bumpversion]` with a current_version key) "
                      f"is taken for the bumpver configuration and the real one is never read" if wrong else "", loc=pk.loc(first), witness=wrong)
            opens = [s_ for s_ in effects.sites[pk.fq] if s_.detail.get("via") == "open"]
            reads = [c for c in ast.walk(first) if isinstance(c, ast.Call) and isinstance(c.func, ast.Attribute) and c.func.attr in ("read", "read_bytes", "read_text", "readline", "readlines", "peek", "read1", "readinto")]
            partial = [c for c in reads if c.func.attr not in ("read", "read_bytes", "read_text") or c.args or (c.func.attr == "read" and c.keywords)]
            ctx.check("R4", bool(reads) and not partial, "first pass looks for the section in the whole file", "config._pick_config_filepath: only part of a candidate file is searched for an existing section",
                      f"`{unparse(partial[0]) if partial else None}`: a [bumpver] section further down (where `init` itself appends it in a long setup.cfg) is not seen, "
                      f"a second `init` then writes a second configuration into another file", loc=pk.loc(partial[0] if partial else first))
            ctx.check("R4", len(opens) == 1 and "b" in (opens[0].detail.get("mode") or ""), "first pass reads candidates in binary mode (no decoding errors)", "config._pick_config_filepath: candidate read mode changed", "", loc=pk.loc(first))
            rets2 = [n for n in ast.walk(second) if isinstance(n, ast.Return)]
            ok2 = len(rets2) == 1 and unparse(rets2[0].value) == unparse(second.target)
            if ok2:
                r2 = pcg.reach(gk.node_containing(rets2[0].value)).drop_unused()
                ok2 = len(r2.atoms) == 1 and r2.atoms[0].endswith(".exists()") and r2.equiv(BF.var(r2.atoms[0]))
            ctx.check("R4", ok2, "second pass: the first existing candidate, whatever its content", "config._pick_config_filepath: existence fallback changed", "", loc=pk.loc(second))
        last = pk.node.body[-1]
        ctx.check("R4", isinstance(last, ast.Return) and unparse(last.value) == f"{pk.params[0]} / 'bumpver.toml'", "fallback: path / 'bumpver.toml'", "config._pick_config_filepath: fallback is not bumpver.toml", unparse(last), loc=pk.loc(last))
    # the format handed to the readers is the file's extension, for every candidate name (also `.bumpver.toml`)
    import pathlib as _pl
    pcf_ = prog.function("config._parse_config_and_format") if prog.has_function("config._parse_config_and_format") else prog.function("config.init_project_ctx")
    ctx.visit(pcf_.fq)
    fmt_stmts = [st for st in walk_no_nested(pcf_.node) if isinstance(st, (ast.Assign, ast.AnnAssign)) and any(isinstance(x, ast.Name) and x.id == "config_format" and isinstance(x.ctx, ast.Store) for x in ast.walk(st))]
    ctx.require(len(fmt_stmts) == 1, "_parse_config_and_format: definition of config_format not found")
    bad_fmt = []
    for nm in names:
        env_ = {"config_filepath": _pl.PurePosixPath("/proj") / nm}
        try:
            prog._propagate(pcf_.module, fmt_stmts, env_, pcf_.fq)
            got_ = env_.get("config_format")
        except AnalysisError as ex_:
            raise AnalysisError(f"C19: config_format of `{nm}` cannot be decided: {ex_}")
        if got_ != nm.rsplit(".", 1)[1]:
            bad_fmt.append((nm, got_))
    ctx.check("R4", not bad_fmt, f"config_format is the extension of every candidate file name {names}", "config._parse_config_and_format: the config format is not the file's extension for every candidate",
              f"{bad_fmt}: `init`, `init --dry` and `show` fail with an invalid config_format whenever that file is selected" if bad_fmt else "", loc=pcf_.loc(fmt_stmts[0]), witness=bad_fmt[:1])
    for fmt, files in self_files.items():
        cand_fmt = {n for n in names if n.endswith("." + fmt)}
        ctx.check("R4", cand_fmt <= set(tables[fmt]), f"default_config has a self snippet for every {fmt} candidate {sorted(cand_fmt)}", f"config.default_config: no self snippet for a {fmt} candidate file",
                  f"missing {sorted(cand_fmt - set(tables[fmt]))}", loc=dc.loc())
    # fallback when no config file exists: the self snippet of the file that will be created
    dg = cfgs.get(dc.fq)
    dpc = PathCond(dg)
    hc = shapes.single_def(dc, "has_config_file") or shapes.any_loop(dc, "has_config_file")
    ok_hc = hc is not None and isinstance(hc, ast.Call) and unparse(hc.func) == "any" and "SUPPORTED_CONFIGS" in unparse(hc) and ".exists()" in unparse(hc)
    ctx.check("R4", ok_hc, "default_config: has_config_file = any candidate of SUPPORTED_CONFIGS exists", "config.default_config: detection of an existing config file changed", unparse(hc) if hc is not None else "", loc=dc.loc())
    adds = {}
    for n in dg.nodes:
        if n.kind == "stmt" and isinstance(n.ast, ast.AugAssign) and unparse(n.ast.target) == "cfg_str" and isinstance(n.ast.value, ast.Name) and n.ast.value.id.startswith("DEFAULT_") and n.id in dg.reachable():
            adds[n.ast.value.id] = dpc.reach(n.id).drop_unused()
    for fmt, const in (("cfg", "DEFAULT_CONFIGPARSER_SETUP_CFG_STR"), ("toml", "DEFAULT_TOML_BUMPVER_STR")):
        r = adds.get(const)
        fa = [a for a in (r.atoms if r is not None else ()) if a.endswith(f"== '{fmt}'") and r.implies(BF.var(a))]
        ok = r is not None and "has_config_file" in r.atoms and len(fa) >= 1 and r.project(["has_config_file", fa[0]]).equiv(~BF.var("has_config_file") & BF.var(fa[0]))
        ctx.check("R4", ok, f"default_config: a fresh {fmt} project gets the self snippet of the file that will be created ({const})",
                  f"config.default_config: a fresh project's {fmt} configuration lacks its own current_version pattern", f"{r.to_dnf() if r is not None else 'never added'}", loc=dc.loc())


def _pattern_regex(ctx, pattern: str, parts: T.Dict[str, str]) -> str:
    """Model of v2patterns._compile_pattern_re for patterns made of part names, '.', '-' and [..] groups."""
    ctx.require(re.fullmatch(r"[A-Z0-9.\-\[\]v]+", pattern) is not None, f"template pattern {pattern!r} outside the modelled subset")
    out = ""
    i = 0
    names = sorted(parts, key=len, reverse=True)
    while i < len(pattern):
        ch = pattern[i]
        if ch == "[":
            out += "(?:"
            i += 1
        elif ch == "]":
            out += ")?"
            i += 1
        elif ch in ".-":
            out += "\\" + ch
            i += 1
        else:
            for nm in names:
                if pattern.startswith(nm, i):
                    out += "(?:" + parts[nm] + ")"
                    i += len(nm)
                    break
            else:
                out += re.escape(ch)
                i += 1
    return out


def pick_config_eval(ctx, rule: str, names: T.List[str]) -> bool:
    """config._pick_config_filepath evaluated on an abstract directory for every assignment of {absent, empty, unrelated, foreign
    section with a current_version key, bumpver section with current_version} to the candidate files: the first candidate that
    holds a bumpver / pycalver section with current_version, else the first that exists, else bumpver.toml - whole files are
    read, in binary mode."""
    import itertools
    from sa.model import Abstract, CannotFold, EvalError
    prog = ctx.prog
    pk = prog.function("config._pick_config_filepath")
    pad = b"[metadata]\nname = x\n" + b"# filler\n" * 600          # a section far down a long file
    kinds = {"E": b"", "U": b"[tool.black]\nline-length = 100\n", "F": b"[tool.bumpversion]\ncurrent_version = 1.0.0\n", "H": b"[bumpver]\ncommit = true\n",
             "S": pad + b"[bumpver]\ncurrent_version = \"1.2.3\"\nversion_pattern = \"MAJOR.MINOR.PATCH\"\n"}

    class Fobj(Abstract):
        def __init__(self, data: bytes, mode: str):
            self.data, self.mode = data, mode

        def read(self, *a: T.Any) -> T.Any:
            d = self.data if not a or a[0] in (None, -1) else self.data[:a[0]]
            return d if "b" in self.mode else d.decode()

    class File(Abstract):
        def __init__(self, name: str, kind: T.Optional[str]):
            self.name, self.kind = name, kind

        def exists(self) -> bool:
            return self.kind is not None

        def is_file(self) -> bool:
            return self.kind is not None

        def open(self, *a: T.Any, **k: T.Any) -> Fobj:
            return Fobj(kinds[self.kind], str(k.get("mode", a[0] if a else "r")))

        def read_bytes(self) -> bytes:
            return kinds[self.kind]

        def read_text(self, *a: T.Any, **k: T.Any) -> str:
            return kinds[self.kind].decode()

        def __repr__(self) -> str:
            return self.name

    class Dir(Abstract):
        def __init__(self, assign: T.Dict[str, T.Optional[str]]):
            self.assign, self.made = assign, {}

        def __sym_div__(self, other: T.Any) -> File:
            self.made.setdefault(other, File(other, self.assign.get(other)))
            return self.made[other]
    order = list(names)
    wrong: T.List[str] = []
    n = 0
    try:
        for combo in itertools.product((None, "E", "U", "F", "H", "S"), repeat=len(order)):
            assign = dict(zip(order, combo))
            d = Dir(assign)
            try:
                got, _ys = prog.run_body(pk, {pk.params[0]: d, "__strict__": True})
                got_name = getattr(got, "name", got)
            except EvalError as ex:
                got_name = f"raises: {ex}"
            want = next((nm for nm in order if assign[nm] == "S"), None) or next((nm for nm in order if assign[nm] is not None), None) or "bumpver.toml"
            n += 1
            if got_name != want and len(wrong) < 4:
                wrong.append(f"{ {k: v for k, v in assign.items() if v} } -> {got_name}, expected {want}")
        # every header spelling the readers accept, LF / CRLF / blanks after the header: a lower-priority file that holds it wins over
        # a higher-priority file without a section
        body = 'current_version = "1.2.3"'
        for hi_, h in enumerate(("[bumpver]", "[tool.bumpver]", "[pycalver]")):
            for vi_, (eol, trail) in enumerate((("\n", ""), ("\r\n", ""), ("\n", " "), ("\r\n", "\t"))):
                key = f"H{hi_}{vi_}"
                kinds[key] = ("[metadata]" + eol + "name = x" + eol + eol + h + trail + eol + body + eol).encode()
                for lo_i in range(1, len(order)):
                    assign = {nm: None for nm in order}
                    assign[order[0]] = "U"
                    assign[order[lo_i]] = key
                    d = Dir(assign)
                    try:
                        got, _ys = prog.run_body(pk, {pk.params[0]: d, "__strict__": True})
                        got_name = getattr(got, "name", got)
                    except EvalError as ex:
                        got_name = f"raises: {ex}"
                    n += 1
                    if got_name != order[lo_i] and len(wrong) < 4:
                        wrong.append(f"{order[lo_i]} holding {(h + trail + eol)!r} + current_version next to an unrelated {order[0]} -> {got_name}")
    except (CannotFold, TypeError, AttributeError, KeyError, ValueError, IndexError) as ex:
        ctx.observe(f"config._pick_config_filepath not evaluated ({type(ex).__name__}: {str(ex)[:80]})")
        return False
    ctx.check(rule, not wrong, f"_pick_config_filepath: first candidate with a bumpver section and current_version, else first existing, else bumpver.toml ({n} directory states evaluated)",
              "config._pick_config_filepath: a file that holds the bumpver configuration is not preferred (or another file is)", "; ".join(wrong[:2]) +
              " (E empty, U unrelated, F foreign section, H bumpver header without current_version, S bumpver section far down the file)", loc=pk.loc(), witness={"cases": wrong[:3]})
    return True
