"""C11 - uncommitted changes are never swept into the bump commit."""
from __future__ import annotations

import ast
import typing as T

from sa import shapes
from sa.boolfn import BF
from sa.model import AnalysisError, call_arg, const_str, unparse
from sa.pathcond import PathCond

TECHNIQUE = "dominance by node cutting + exact path conditions (truth tables) for the abort rules; structural column-grammar check of the status parser"
EXPLANATION = (
    "Decides (R1) that in cli._update every feasible path to the VCS commit step passes the dirty check before any "
    "rewrite, with the configured file set and the --allow-dirty option wired to it; (R2) by exact path-condition "
    "extraction that assert_not_dirty returns normally iff (no dirty file, or allow_dirty) and no dirty pattern file, all "
    "other outcomes being non-zero exits; (R3) that the expressions which split a status line into (status, path) are "
    "fixed-column slices compatible with the `XY path` porcelain grammar - a delimiter split on a character that can "
    "occur in the status columns is reported; (R4) that a line is dropped only if it is untracked ('??') and not a "
    "pattern file."
)
LEVEL_NOTE = ("Trusted: the documented `git status --porcelain` v1 line grammar (two status columns, one space, path). "
              "Not decided: real git output for renames / quoted paths; hg's untracked marker (outside the property's quantifier).")

GIT_UNTRACKED = "??"


def _regex_items(ctx, fn, src: ast.Call, gen: ast.comprehension, ret: ast.ListComp) -> T.Tuple[str, T.Dict[str, ast.AST], ast.AST, T.List[ast.AST]]:
    """`RE.findall(output)` with RE = ^(..)\\s*(.+)$ : every line is a match only under re.MULTILINE."""
    import re as _re
    prog = ctx.prog
    rx_def = shapes.inline(fn, src.func.value, prog)
    pat = flags = None
    cands = [rx_def] + [v for v in [prog.const_node(fn.module.name, src.func.value.id)] if isinstance(src.func.value, ast.Name) and src.func.value.id in fn.module.consts]
    for c in cands:
        if isinstance(c, ast.Call) and unparse(c.func) == "re.compile" and c.args:
            pat = const_str(c.args[0])
            fl = c.args[1] if len(c.args) > 1 else next((k.value for k in c.keywords if k.arg == "flags"), None)
            flags = unparse(fl) if fl is not None else ""
    ctx.require(pat is not None, f"C11/R3: the regular expression behind `{unparse(src.func.value)}` is not a constant re.compile(...)")
    multiline = "MULTILINE" in flags or "re.M" in flags.split("|") or pat.startswith("(?m)") or "(?m" in pat[:6]
    ctx.check("R3", multiline, "VCSAPI.status: the line expression is applied per line (re.MULTILINE)",
              "vcs.VCSAPI.status: the status output is parsed by a line-anchored expression without re.MULTILINE",
              f"`{pat}` with flags `{flags or 'none'}`: `^`/`$` match only at the ends of the whole output, so as soon as two paths are dirty nothing (or only one line) is "
              f"parsed and the tree counts as clean", loc=fn.loc(src), witness={"status output": " M README.md\n M notes.txt"})
    core = pat[4:] if pat.startswith("(?m)") else pat
    ctx.require(_re.fullmatch(r"\^\((\.\.|\.\{2\})\)(\\s\*|\\s\?| |\\s)?\(\.[+*]\)\$", core) is not None, f"C11/R3: line expression `{pat}` not enumerated")
    names = [t.id for t in gen.target.elts]
    line = "__line__"
    L = ast.Name(id=line, ctx=ast.Load())
    fields = {names[0]: ast.Subscript(value=L, slice=ast.Slice(lower=None, upper=ast.Constant(2), step=None), ctx=ast.Load()),
              names[1]: ast.Call(func=ast.Attribute(value=ast.Subscript(value=L, slice=ast.Slice(lower=ast.Constant(2), upper=None, step=None), ctx=ast.Load()), attr="strip", ctx=ast.Load()), args=[], keywords=[])}
    return line, fields, ret.elt, [shapes.inline_simple_calls(prog, fn, t) for t in gen.ifs]


def _line_var_and_fields(ctx, fn) -> T.Tuple[str, T.Dict[str, ast.AST], ast.AST, T.List[ast.AST]]:
    """Locate: the per-line variable, the expressions for (status, path), the returned element, the filter tests."""
    from sa.model import walk_no_nested
    rets = [n for n in walk_no_nested(fn.node) if isinstance(n, ast.Return) and n.value is not None]
    ctx.require(len(rets) == 1, "VCSAPI.status has several return statements (shape not enumerated)")
    ret = None
    if isinstance(rets[0].value, ast.Name):
        ret = shapes.loop_as_listcomp(fn, rets[0].value.id, ctx.prog)
    if ret is None:
        ret = shapes.resolve_alias(fn, rets[0].value)
    ctx.require(isinstance(ret, ast.ListComp) and len(ret.generators) == 1,
                f"VCSAPI.status does not return a single-generator list comprehension: `{unparse(ret)[:60]}`")
    gen = ret.generators[0]
    src = shapes.resolve_alias(fn, gen.iter)
    fields: T.Dict[str, ast.AST] = {}
    if isinstance(src, ast.ListComp) and len(src.generators) == 1:
        inner = src.generators[0]
        ctx.require(isinstance(inner.target, ast.Name), "inner status comprehension target is not a name")
        line = inner.target.id
        lines_src = shapes.resolve_alias(fn, inner.iter)
        elt = src.elt
        if isinstance(gen.target, (ast.Tuple, ast.List)):
            names = [t.id for t in gen.target.elts if isinstance(t, ast.Name)]
            ctx.require(len(names) == len(gen.target.elts) == 2, "status items are not unpacked into two names")
            if isinstance(elt, (ast.Tuple, ast.List)) and len(elt.elts) == 2:
                fields = {names[0]: elt.elts[0], names[1]: elt.elts[1]}
            else:
                fields = {names[0]: ast.Subscript(value=elt, slice=ast.Constant(0), ctx=ast.Load()),
                          names[1]: ast.Subscript(value=elt, slice=ast.Constant(1), ctx=ast.Load())}
        else:
            raise AnalysisError("C11: status items are not unpacked into (status, path)")
    elif isinstance(src, ast.Call) and isinstance(src.func, ast.Attribute) and src.func.attr in ("findall", "finditer") and isinstance(gen.target, (ast.Tuple, ast.List)) \
            and len(gen.target.elts) == 2 and all(isinstance(t, ast.Name) for t in gen.target.elts):
        # the lines are cut by a regular expression applied to the whole output
        return _regex_items(ctx, fn, src, gen, ret)
    else:
        # single comprehension directly over the lines
        ctx.require(isinstance(gen.target, ast.Name), "status comprehension target shape not enumerated")
        line = gen.target.id
        lines_src = src
    ctx.require(isinstance(lines_src, ast.Call) and isinstance(lines_src.func, ast.Attribute) and lines_src.func.attr == "splitlines",
                f"status lines do not come from .splitlines(): `{unparse(lines_src)[:60]}`")
    out_src = shapes.resolve_alias(fn, lines_src.func.value)
    stripped = False
    while isinstance(out_src, ast.Call) and isinstance(out_src.func, ast.Attribute) and out_src.func.attr in ("strip", "lstrip", "rstrip") and not out_src.args:
        stripped = stripped or out_src.func.attr in ("strip", "lstrip")
        out_src = shapes.resolve_alias(fn, out_src.func.value)
    ctx.require(isinstance(out_src, ast.Call) and const_str(out_src.args[0] if out_src.args else None) == "status",
                "status output does not come from self('status')")
    ctx.check("R3", not stripped, "VCSAPI.status: the command output is split into lines without stripping its leading whitespace",
              "vcs.VCSAPI.status: the whole status output is left-stripped (the first line loses its blank index column: ' M README.md' is parsed one column off)",
              "`.strip()` / `.lstrip()` on the output of self('status') before splitlines()", loc=fn.loc(), witness={"output": " M README.md\n?? x", "first line after strip": "M README.md"})
    return line, fields, ret.elt, [shapes.inline_simple_calls(ctx.prog, fn, t) for t in gen.ifs]


def _classify_extraction(expr: ast.AST, line: str, fields: T.Dict[str, ast.AST], depth: int = 0) -> T.Dict[str, T.Any]:
    """Describe how `expr` is cut out of the line: {'kind': 'slice', 'lo':..,'hi':..,'strip':bool} or
    {'kind': 'split', ...} or {'kind': 'line'}."""
    strip = False
    while isinstance(expr, ast.Call) and isinstance(expr.func, ast.Attribute) and expr.func.attr in ("strip", "rstrip", "lstrip") and not expr.args:
        strip = strip or expr.func.attr in ("strip", "lstrip")
        expr = expr.func.value
    if isinstance(expr, ast.Name) and expr.id in fields and depth < 3:
        d = _classify_extraction(fields[expr.id], line, fields, depth + 1)
        d["strip"] = d.get("strip", False) or strip
        return d
    if isinstance(expr, ast.Name) and expr.id == line:
        return {"kind": "line", "strip": strip}
    if isinstance(expr, ast.Subscript):
        base = expr.value
        if isinstance(base, ast.Name) and base.id == line and isinstance(expr.slice, ast.Slice):
            lo = expr.slice.lower.value if isinstance(expr.slice.lower, ast.Constant) else (0 if expr.slice.lower is None else "?")
            hi = expr.slice.upper.value if isinstance(expr.slice.upper, ast.Constant) else (None if expr.slice.upper is None else "?")
            return {"kind": "slice", "lo": lo, "hi": hi, "strip": strip}
        if isinstance(base, ast.Call) and isinstance(base.func, ast.Attribute) and base.func.attr in ("split", "rsplit", "partition", "rpartition") \
                and isinstance(base.func.value, ast.Name) and base.func.value.id == line:
            sep = base.args[0].value if base.args and isinstance(base.args[0], ast.Constant) else None
            idx = expr.slice.value if isinstance(expr.slice, ast.Constant) else "?"
            return {"kind": "split", "sep": sep, "method": base.func.attr, "index": idx, "strip": strip, "text": unparse(base)}
    raise AnalysisError(f"C11/R3: extraction shape not enumerated: `{unparse(expr)[:70]}`")


STATUS_COLUMNS = " MADRCUT?"          # index / worktree column of `git status --porcelain` v1 ('!!' needs --ignored)


def _filter_by_enumeration(ctx, s_fn, ifs: T.List[ast.AST], line: str, fields: T.Dict[str, ast.AST], req: str) -> None:
    """keep(status, path in required) must be `required or status != '??'` for every status code git prints: the filter
    tests are folded for each of the 80 XY codes and both values of the membership test."""
    import copy
    prog = ctx.prog
    status_names = [n for n, e in fields.items() if isinstance(e, ast.Subscript) and isinstance(e.slice, ast.Slice) and e.slice.lower is None
                    and isinstance(e.slice.upper, ast.Constant) and e.slice.upper.value == 2]
    ctx.require(len(status_names) == 1, "C11/R4: the two status columns are not bound to one name")
    sname = status_names[0]
    codes = [x + y for x in STATUS_COLUMNS for y in STATUS_COLUMNS if x + y != "  "]
    wrong: T.List[T.Tuple[str, bool, bool]] = []
    # further parameters of status() that the filter reads: every value a caller can pass is tried
    extra = sorted({x.id for t in ifs for x in ast.walk(t) if isinstance(x, ast.Name) and x.id in s_fn.all_params and x.id not in (req, "self")})
    extra_vals: T.Dict[str, T.List[T.Any]] = {}
    for p_ in extra:
        vals: T.Set[T.Any] = set()
        for fq_, calls_ in ctx.effects.calls.items():
            for node_, callee_ in calls_:
                if callee_.fq == s_fn.fq and isinstance(node_, ast.Call):
                    a_ = call_arg(node_, s_fn, p_)
                    if a_ is None:
                        a_ = s_fn.defaults.get(p_)
                    vals |= {a_.value} if isinstance(a_, ast.Constant) else {True, False}
        extra_vals[p_] = sorted(vals, key=repr) or [True, False]
    import itertools as _it
    combos = [dict(zip(extra, c_)) for c_ in _it.product(*[extra_vals[p_] for p_ in extra])] or [{}]
    for code in codes:
      for combo in combos:
        for member in (True, False):
            class Sub(ast.NodeTransformer):
                def visit_Compare(self, node: ast.Compare) -> ast.AST:
                    if len(node.ops) == 1 and isinstance(node.ops[0], (ast.In, ast.NotIn)) and unparse(node.comparators[0]) == req:
                        return ast.Constant(value=member if isinstance(node.ops[0], ast.In) else not member)
                    return self.generic_visit(node)
            kept = True
            for t in ifs:
                t2 = Sub().visit(copy.deepcopy(t))
                ctx.require(not any(isinstance(x, ast.Name) and x.id == req for x in ast.walk(t2)), f"C11/R4: `{req}` is used outside a membership test")
                try:
                    kept = kept and bool(prog.fold(s_fn.module, t2, dict({sname: code}, **combo)))
                except AnalysisError as ex:
                    raise AnalysisError(f"C11/R4: filter test `{unparse(t)[:70]}` cannot be decided for status {code!r}: {ex}")
            if kept != (member or code != "??"):
                wrong.append((code, member, kept))
                if combo and "combo" not in ctx.notes:
                    ctx.notes["combo"] = {k_: repr(v_) for k_, v_ in combo.items()}
    ctx.check("R4", not wrong, f"VCSAPI.status keeps a line iff path in {req} or status != '??'  [decided for {len(codes)} status codes x 2]",
              "vcs.VCSAPI.status: filter differs from 'pattern file or not untracked'",
              f"{len(wrong)} of {2 * len(codes)} cases differ, e.g. status {wrong[0][0]!r} with the path {'in' if wrong[0][1] else 'not in'} {req} is "
              f"{'kept' if wrong[0][2] else 'dropped'}: an unrelated file with staged and unstaged changes (`MM`, `AM`) no longer makes the tree dirty" if wrong else "",
              loc=s_fn.loc(ifs[0]), witness={"status": wrong[0][0], "path in required_files": wrong[0][1], "kept": wrong[0][2]} if wrong else None)


def vcs_marker_rule(ctx, rule: str) -> None:
    """The VCS is detected wherever git works: the `.git` marker is tested for existence (in a linked worktree or a
    submodule it is a regular file), not for being a directory."""
    prog = ctx.prog
    # the dirty check runs only if the VCS is found; in a linked worktree or a submodule `.git` is a regular file
    iu = prog.function("vcs.VCSAPI.is_usable")
    ctx.visit(iu.fq)
    KIND_TESTS = {"isdir": "a directory", "isfile": "a regular file", "islink": "a symbolic link", "is_dir": "a directory", "is_file": "a regular file",
                  "is_symlink": "a symbolic link", "ismount": "a mount point", "listdir": "a directory (listdir)", "scandir": "a directory (scandir)"}
    n_marker = 0
    for c in ast.walk(iu.node):
        if not (isinstance(c, ast.Call) and isinstance(c.func, ast.Attribute)):
            continue
        operands = list(c.args) + [c.func.value]
        on_marker = any("self.name" in unparse(shapes.inline(iu, o, prog)) and not unparse(o).startswith("self.subcommands") for o in operands
                        if not (isinstance(o, ast.Name) and o.id in ("os", "sp", "subprocess")) and not unparse(o).startswith("os.path"))
        if not on_marker:
            continue
        if c.func.attr in ("exists", "lexists"):
            n_marker += 1
            ctx.ok(rule, f"is_usable: marker tested with {c.func.attr}() (file or directory)")
        elif c.func.attr in KIND_TESTS:
            n_marker += 1
            ctx.bad(rule, "vcs.VCSAPI.is_usable: the VCS marker must be " + KIND_TESTS[c.func.attr],
                    f"`{unparse(c)}`: in a linked git worktree and in a submodule `.git` is a regular file, so no VCS is found there: "
                    f"with commit = true the dirty check is skipped and files of a dirty tree are rewritten", loc=iu.loc(c),
                    witness={"layout": "git worktree add ../wt; cd ../wt  (.git is a file `gitdir: ...`)"}, what="is_usable: marker tested for existence only")
    if n_marker == 0:
        ctx.bad(rule, "vcs.VCSAPI.is_usable: the VCS is detected without testing for its marker in the project directory",
                "`git rev-parse --git-dir` also succeeds in a sub-directory of a repository: `git status --porcelain` then prints paths relative to the repository root while the "
                "configured paths are relative to the project directory, so a dirty pattern file is never recognised", loc=iu.loc(),
                witness={"layout": "project in packages/core/ of a git repository", "flag": "--allow-dirty"}, what="is_usable: marker tested for existence only")
    # a probe that fails means "not usable", not an error: the probe command is run through an API that reports the status
    # (sp.call / sp.run without check) or its CalledProcessError is caught inside is_usable.  (get_vcs_api / get_tags catch OSError only.)
    from sa.cfg import handler_can_catch
    cfg = ctx.cfgs.get(iu.fq)
    for c in ast.walk(iu.node):
        if not isinstance(c, ast.Call):
            continue
        f_ = unparse(c.func)
        raising = f_ in ("self", "sp.check_output", "sp.check_call", "subprocess.check_output", "subprocess.check_call") or \
            (f_ in ("sp.run", "subprocess.run") and any(k.arg == "check" and isinstance(k.value, ast.Constant) and k.value.value is True for k in c.keywords))
        if not raising:
            continue
        nid = cfg.node_containing(c)
        caught = any(nid in shapes.try_body_nodes(cfg, hid) and (handler_can_catch(cfg.nodes[hid].extra.get("types"), "CalledProcessError"))
                     for hid in shapes.handlers_catching(cfg, ["CalledProcessError"]))
        ctx.check(rule, caught, "is_usable: a failing probe command answers False",
                  "vcs.VCSAPI.is_usable: a failing probe command raises instead of answering 'not usable'",
                  f"`{unparse(c)[:60]}` raises CalledProcessError when `git rev-parse --git-dir` fails (a stale `.git` pointer file, a repository git refuses): nothing between here and "
                  f"the command catches it - `show`, `update` and `init`'s follow-up die with a traceback where they used to go on without a VCS", loc=iu.loc(c),
                  witness={"layout": ".git is a file `gitdir: /gone/...`"})


def run(ctx) -> None:
    prog, effects, cfgs = ctx.prog, ctx.effects, ctx.cfgs
    ctx.rule("R1", "every feasible path to the commit step passes assert_not_dirty before any rewrite; arguments wired")
    ctx.rule("R2", "assert_not_dirty returns normally iff (allow_dirty or no dirty file) and no dirty pattern file; otherwise exits non-zero")
    ctx.rule("R3", "status lines are parsed by fixed columns compatible with the porcelain grammar")
    ctx.rule("R4", "a status line is dropped only when untracked ('??') and not a pattern file; the status command lists changed and untracked files only")
    from checks.c10 import command_options_rule
    command_options_rule(ctx, "R4", "status")
    ctx.rule("R6", "prerequisite: what is staged and committed is exactly the configured set of files (C08/R1-R2)")
    from sa.report import run_prerequisite
    run_prerequisite(ctx, "C08", ("R1", "R2"), "R6")
    ctx.rule("R7", "--allow-dirty is a flag that is off unless given")
    shapes.cli_option_rule(ctx, "R7", ["--allow-dirty"])
    ctx.rule("R5", "the VCS is detected wherever git works: the `.git` marker is tested for existence, not for being a directory")

    # ------------------------------------------------------------------ R1
    upd = prog.function("cli._update")
    ctx.visit(upd.fq)
    cfg = cfgs.get(upd.fq)
    neff = shapes.node_effects_lazy(prog, effects, cfg, cfgs.types(upd.fq))
    assert_nodes = [cfg.node_containing(c) for c in shapes.find_calls(prog, upd, "vcs.assert_not_dirty")]
    root_cmd = "cli.update"
    reach_cmd = effects.reachable_functions([root_cmd])
    all_assert = [(fq, c) for fq in sorted(reach_cmd) for c in shapes.find_calls(prog, prog.function(fq), "vcs.assert_not_dirty")]
    ctx.observe(f"assert_not_dirty call sites reachable from cli.update: {[fq for fq, _ in all_assert]}")
    if not all_assert:
        ctx.bad("R1", "cli.update: the dirty check is never called", "no call of vcs.assert_not_dirty is reachable from `bumpver update`: "
                "a dirty working tree is rewritten and committed", loc=upd.loc(), what="cli.update: dirty check is called")
    elif assert_nodes:
        write_nodes = [nid for nid, e in neff.items() if "FS_WRITE" in e and nid not in assert_nodes
                       and not any(k.startswith("VCS_MUTATE") for k in e)]
        commit_nodes = [nid for nid, e in neff.items() if any(k.startswith("VCS_MUTATE") for k in e)]
        ctx.floor("R1", "rewrite nodes in cli._update", len(write_nodes), 1)
        ctx.floor("R1", "commit nodes in cli._update", len(commit_nodes), 1)
        pc_cut = PathCond(cfg, blocked_nodes=assert_nodes)
        for m in commit_nodes:
            f = pc_cut.reach(m)
            ctx.check("R1", f.is_false(),
                      f"cli._update: commit step `{cfg.nodes[m].text()[:40]}` infeasible without passing assert_not_dirty",
                      "cli._update: the commit step is reachable without the dirty check",
                      f"with the assert_not_dirty call removed from the graph `{cfg.nodes[m].text()}` is still reached when {f.to_dnf()}",
                      loc=upd.loc(cfg.nodes[m].ast), witness=f.models(1))
        for w in write_nodes:
            for a in assert_nodes:
                after = a in cfg.reachable(w)
                ctx.check("R1", not after, f"cli._update: dirty check is never executed after the rewrite `{cfg.nodes[w].text()[:40]}`",
                          "cli._update: dirty check runs after files were rewritten",
                          f"`{cfg.nodes[a].text()}` is reachable from `{cfg.nodes[w].text()}`", loc=upd.loc(cfg.nodes[a].ast))
            # when a commit will follow, the write must be preceded by the check: cut graph again, restricted to
            # valuations under which the commit is reached afterwards
            pc_full = PathCond(cfg)
            for m in commit_nodes:
                will_commit = pc_full.reach(m)
                f = pc_cut.reach(w) & will_commit
                # atoms assigned between w and m are already quantified away by the dataflow
                ctx.check("R1", f.is_false(),
                          f"cli._update: rewrite `{cfg.nodes[w].text()[:40]}` is preceded by the dirty check whenever a commit follows",
                          "cli._update: files are rewritten without a dirty check although a commit follows",
                          f"`{cfg.nodes[w].text()}` reached without assert_not_dirty when {f.to_dnf()}", loc=upd.loc(cfg.nodes[w].ast))
    else:
        # the check lives outside _update: decide on interprocedural path conditions in the vocabulary of cli.update
        ip = ctx.interproc(())
        ca = BF.false()
        for fq, c in all_assert:
            ca = ca | ip.site_condition(prog.function(fq), c, root_cmd)
        cc = BF.false()
        n_commit = 0
        for fq in sorted(reach_cmd):
            for st in effects.sites.get(fq, []):
                if st.effect.startswith("VCS_MUTATE"):
                    cc = cc | ip.site_condition(st.fn, st.node, root_cmd)
                    n_commit += 1
        ctx.floor("R1", "VCS-mutating sites reachable from cli.update", n_commit, 3)
        ca, cc = ca.drop_unused(), cc.drop_unused()
        gap = cc & ~ca
        ctx.check("R1", gap.is_false(), f"cli.update: whenever a VCS step runs the dirty check was called  [check: {ca.to_dnf(4)}; commit: {cc.to_dnf(4)}]",
                  "cli.update: the commit step runs under conditions under which the dirty check is not called",
                  f"VCS steps run when {cc.to_dnf(6)}; assert_not_dirty is called only when {ca.to_dnf(6)}; uncovered: {gap.to_dnf(6)}",
                  loc=prog.function(all_assert[0][0]).loc(all_assert[0][1]), witness=gap.models(1))
        rfn = prog.function(root_cmd)
        rcfg = cfgs.get(root_cmd)
        rneff = shapes.node_effects_lazy(prog, effects, rcfg, cfgs.types(root_cmd))
        a_nodes, w_nodes = [], []
        for n in rcfg.nodes:
            calls_here = [c for c in ast.walk(n.ast) if isinstance(c, ast.Call)] if n.ast is not None and n.kind in ("stmt", "test") else []
            for c in calls_here:
                t = prog.resolve_call(rfn, c, cfgs.types(root_cmd), count=False)
                if t.fn is not None and (t.fn.fq == "vcs.assert_not_dirty" or shapes.calls_transitively(prog, effects, t.fn.fq, "vcs.assert_not_dirty")):
                    a_nodes.append(n.id)
            if "FS_WRITE" in rneff.get(n.id, {}) and any(k.startswith("VCS_MUTATE") for k in rneff.get(n.id, {})):
                w_nodes.append(n.id)
        ctx.require(a_nodes and w_nodes, "cli.update: dirty check / update nodes not found in the command's own flow graph")
        for w in w_nodes:
            for a in a_nodes:
                ctx.require(a != w, "cli.update: dirty check and rewrite are behind the same call (shape not enumerated)")
                ctx.check("R1", a not in rcfg.reachable(w),
                          "cli.update: dirty check is never executed after the rewrite", "cli.update: dirty check runs after files were rewritten",
                          f"`{rcfg.nodes[a].text()[:60]}` is reachable from `{rcfg.nodes[w].text()[:60]}`", loc=rfn.loc(rcfg.nodes[a].ast))
    # wiring of the arguments
    FILESET = ("set(cfg.file_patterns.keys())", "set(cfg.file_patterns)")
    # the configured paths are compared with the paths git prints: they must be canonical relative paths
    from checks.c03 import canonical_keys_rule
    canonical_keys_rule(ctx, "R1")
    if assert_nodes:
        shapes.check_passthrough(ctx, "R1", "cli._update", "vcs.assert_not_dirty",
                                 {"vcs_api": "vcs_api", "filepaths": FILESET, "allow_dirty": "allow_dirty"})
    else:
        for fq, _c in all_assert:
            shapes.check_passthrough(ctx, "R1", fq, "vcs.assert_not_dirty", {"filepaths": FILESET, "allow_dirty": "allow_dirty"})
    shapes.check_passthrough(ctx, "R1", "cli.update", "cli._update", {"allow_dirty": "allow_dirty", "cfg": "cfg"})

    assert_not_dirty_eval(ctx, "R1")

    # ------------------------------------------------------------------ R2
    a_fn = prog.function("vcs.assert_not_dirty")
    ctx.visit(a_fn.fq)
    a_cfg = cfgs.get(a_fn.fq)
    ctx.require(len(a_fn.params) >= 3, "assert_not_dirty signature changed")
    p_api, p_paths, p_allow = a_fn.params[0], a_fn.params[1], a_fn.params[2]
    # D: the local bound to <api>.status(...)
    d_name = None
    p_name = None
    for n in ast.walk(a_fn.node):
        if isinstance(n, ast.Assign) and len(n.targets) == 1 and isinstance(n.targets[0], ast.Name):
            v = n.value
            if isinstance(v, ast.Call):
                t = prog.resolve_call(a_fn, v, cfgs.types(a_fn.fq), count=False)
                if t.fn is not None and t.fn.fq == "vcs.VCSAPI.status":
                    d_name = n.targets[0].id
                    rf = call_arg(v, t.fn, "required_files")
                    ctx.check("R2", rf is not None and unparse(rf) == p_paths,
                              "assert_not_dirty: status(required_files=<configured files>)",
                              "vcs.assert_not_dirty: status() is not asked about the configured files",
                              f"required_files=`{unparse(rf) if rf is not None else None}`", loc=a_fn.loc(v))
    ctx.require(d_name is not None, "assert_not_dirty no longer binds the result of vcs_api.status()")
    rebinds = [st for st, _v in shapes.local_defs(a_fn, d_name)]
    ctx.check("R2", len(rebinds) == 1, f"assert_not_dirty: `{d_name}` is the status result throughout (bound once)",
              "vcs.assert_not_dirty: the list of dirty files is modified before the abort rules are applied",
              f"`{unparse(rebinds[-1])[:80]}`: the pattern-file check and the dirty test then see only part of what `git status` reported "
              f"(e.g. a list cut to the first 20 entries for logging)" if len(rebinds) > 1 else "", loc=a_fn.loc(rebinds[-1]) if rebinds else a_fn.loc(),
              witness={"dirty files": "30 modified docs/*.md and a modified pattern file sorted after them", "flag": "--allow-dirty"})
    for n in ast.walk(a_fn.node):
        if isinstance(n, ast.Assign) and len(n.targets) == 1 and isinstance(n.targets[0], ast.Name):
            v = n.value
            names = {x.id for x in ast.walk(v) if isinstance(x, ast.Name)}
            is_inter = (isinstance(v, ast.BinOp) and isinstance(v.op, ast.BitAnd)) or \
                       (isinstance(v, ast.Call) and isinstance(v.func, ast.Attribute) and v.func.attr == "intersection") or \
                       isinstance(v, (ast.ListComp, ast.SetComp))
            if is_inter and d_name in names and p_paths in names:
                p_name = n.targets[0].id
    ctx.require(p_name is not None, "assert_not_dirty no longer computes the dirty pattern files (dirty ∩ filepaths)")
    pc = PathCond(a_cfg)
    for atom in (d_name, p_name, p_allow):
        ctx.require(atom in pc.atoms, f"assert_not_dirty does not branch on `{atom}`")
    A, D, P = BF.var(p_allow), BF.var(d_name), BF.var(p_name)
    env = ~P | D            # a non-empty intersection implies a non-empty dirty list
    spec = (A | ~D) & ~P
    got = pc.reach(a_cfg.exit).project([p_allow, d_name, p_name])
    same = ((got & env).equiv(spec & env))
    wit = (got & env).diff_witness(spec & env)
    ctx.check("R2", same,
              f"assert_not_dirty returns normally iff ({p_allow} or not {d_name}) and not {p_name}  [extracted: {got.to_dnf()}]",
              "vcs.assert_not_dirty: abort rules differ from the specification",
              f"normal return happens iff {got.to_dnf()}; required: ({p_allow} | !{d_name}) & !{p_name}",
              loc=a_fn.loc(), witness=wit)
    # the pattern-file abort must not depend on allow_dirty: for P true, exit is unreachable whatever A
    n_exits = 0
    for nid in a_cfg.sysexits:
        code = a_cfg.nodes[nid].extra.get("code")
        if nid not in a_cfg.reachable():
            continue
        n_exits += 1
        ctx.check("R2", code not in (0, None, False, "?"), f"assert_not_dirty: abort at L{a_cfg.nodes[nid].lineno} exits non-zero ({code})",
                  "vcs.assert_not_dirty: abort path exits with status 0", f"sys.exit({code}) at L{a_cfg.nodes[nid].lineno}",
                  loc=a_fn.loc(a_cfg.nodes[nid].stmt))
    ctx.floor("R2", "abort exits in assert_not_dirty", n_exits, 2)

    # ------------------------------------------------------------------ R3 / R4
    s_fn = prog.function("vcs.VCSAPI.status")
    ctx.visit(s_fn.fq)
    decided_status = status_eval(ctx, "R4")
    try:
        line, fields, ret_elt, ifs = _line_var_and_fields(ctx, s_fn)
        req = "required_files"
        ctx.require(req in s_fn.params, "VCSAPI.status lost its required_files parameter")
        # which names carry the status columns / the path?  decided from the filter + the returned element
        path_d = _classify_extraction(ret_elt, line, fields)
        what = "VCSAPI.status: returned path is a fixed-column slice of the status line"
        if path_d["kind"] == "split":
            sep = path_d["sep"]
            if sep is None or (isinstance(sep, str) and sep.strip() == ""):
                ctx.bad("R3", "vcs.VCSAPI.status: porcelain line split on a delimiter that occurs inside the status columns",
                        f"`{path_d['text']}` separates status and path at the first {sep!r}; in `git status --porcelain` the first status "
                        f"column is a space for unstaged changes, so `' M setup.py'` yields status '' and path 'M setup.py' - "
                        f"a dirty pattern file is not recognised under --allow-dirty",
                        loc=s_fn.loc(ret_elt), witness={"line": " M setup.py", "parsed_path": "M setup.py", "expected_path": "setup.py"}, what=what)
            else:
                raise AnalysisError(f"C11/R3: split on {sep!r} not enumerated")
        elif path_d["kind"] == "slice":
            good = path_d["hi"] is None and ((path_d["lo"] == 2 and path_d["strip"]) or path_d["lo"] == 3)
            ctx.check("R3", good, what + f" [line[{path_d['lo']}:], strip={path_d['strip']}]",
                      "vcs.VCSAPI.status: path column range does not fit the porcelain grammar",
                      f"path is line[{path_d['lo']}:{path_d['hi']}] (strip={path_d['strip']}); the path starts at column 3 (git) / 2 (hg)",
                      loc=s_fn.loc(ret_elt), witness={"line": " M setup.py"})
            if path_d["lo"] == 3:
                ctx.observe("VCSAPI.status: path taken from column 3 - correct for git, drops a character for hg (outside C11's quantifier)")
        else:
            ctx.bad("R3", "vcs.VCSAPI.status: whole status line returned as path", "the returned element is the line itself",
                    loc=s_fn.loc(ret_elt), what=what)

        # filter
        ctx.floor("R4", "filter conditions in VCSAPI.status", len(ifs), 1)
        status_ok = True

        def classify(leaf: ast.AST) -> T.Tuple[str, bool]:
            nonlocal status_ok
            if isinstance(leaf, ast.Compare) and len(leaf.ops) == 1:
                op = leaf.ops[0]
                l, r = leaf.left, leaf.comparators[0]
                if isinstance(op, (ast.In, ast.NotIn)) and unparse(r) == req:
                    d = _classify_extraction(l, line, fields)
                    same_as_ret = d == path_d or (d["kind"] == path_d["kind"] and d.get("lo") == path_d.get("lo") and d.get("index") == path_d.get("index"))
                    if not same_as_ret:
                        raise AnalysisError("C11/R4: membership is tested on a different field than the one returned")
                    if not (d.get("strip") or d["kind"] == "slice" and d.get("lo") == 3):
                        # the tested text would keep the separator column
                        raise AnalysisError("C11/R4: membership tested on an unstripped field")
                    return "R", isinstance(op, ast.In)
                if isinstance(op, (ast.Eq, ast.NotEq)):
                    c, e = (r, l) if isinstance(r, ast.Constant) else (l, r)
                    if isinstance(c, ast.Constant) and isinstance(c.value, str):
                        d = _classify_extraction(e, line, fields)
                        if d["kind"] == "split":
                            status_ok = status_ok and d.get("index") == 0
                        elif d["kind"] == "slice":
                            status_ok = status_ok and d["lo"] == 0 and d["hi"] == 2
                        else:
                            status_ok = False
                        if c.value.strip() != GIT_UNTRACKED:
                            return f"status=={c.value!r}", isinstance(op, ast.Eq)
                        return "U", isinstance(op, ast.Eq)
            # `any(x == r for r in required)` is membership spelled out
            if isinstance(leaf, ast.Call) and unparse(leaf.func) == "any" and len(leaf.args) == 1 and isinstance(leaf.args[0], ast.GeneratorExp) \
                    and len(leaf.args[0].generators) == 1 and unparse(leaf.args[0].generators[0].iter) == req and not leaf.args[0].generators[0].ifs:
                g = leaf.args[0].generators[0]
                cs = shapes.compare_shape(leaf.args[0].elt)
                if cs and cs[0] == "==" and isinstance(g.target, ast.Name) and g.target.id in (unparse(cs[1]), unparse(cs[2])):
                    other = cs[2] if unparse(cs[1]) == g.target.id else cs[1]
                    return classify(ast.Compare(left=other, ops=[ast.In()], comparators=[ast.Name(id=req, ctx=ast.Load())]))
            if any(isinstance(x, ast.Name) and x.id == req for x in ast.walk(leaf)):
                ctx.bad("R4", "vcs.VCSAPI.status: an untracked entry counts as a pattern file without being equal to one",
                        f"`{unparse(leaf)[:90]}` is not exact membership in `{req}`: an untracked file whose name merely resembles a configured path is "
                        f"reported as dirty pattern file (update aborts under --allow-dirty), or a real one is missed",
                        loc=s_fn.loc(leaf) if hasattr(leaf, "lineno") else s_fn.loc(), witness={"status line": "?? README", "required_files": ["README.md"]},
                        what="VCSAPI.status: pattern-file test is exact membership")
                return "R~", True
            raise AnalysisError(f"C11/R4: filter leaf not enumerated: `{unparse(leaf)}`")

        keep = BF.true()
        try:
            for t in ifs:
                keep = keep & shapes.bool_expr_bf(t, classify)
        except AnalysisError as ex_leaf:
            if "filter leaf not enumerated" not in str(ex_leaf):
                raise
            # decide the filter over the finite set of two-column status codes instead
            _filter_by_enumeration(ctx, s_fn, ifs, line, fields, req)
            keep = None
        spec_keep = BF.var("R") | ~BF.var("U")
        if keep is None:
            keep = spec_keep
        ctx.check("R4", keep.equiv(spec_keep),
                  f"VCSAPI.status keeps a line iff path in {req} or status != '??'  [extracted: {keep.to_dnf()}]",
                  "vcs.VCSAPI.status: filter differs from 'pattern file or not untracked'",
                  f"kept iff {keep.to_dnf()}; required R | !U (R = path in {req}, U = status == '??')",
                  loc=s_fn.loc(ifs[0]), witness=keep.diff_witness(spec_keep))
        ctx.check("R3", status_ok, "VCSAPI.status: the status field compared with '??' is the first two columns / first split field",
                  "vcs.VCSAPI.status: status comparison uses the wrong columns", "status field is not line[:2]", loc=s_fn.loc(ifs[0]))
        # git's untracked marker is what the template's grammar says
        tmpl = prog.const("vcs", "VCS_SUBCOMMANDS_BY_NAME")
        ctx.check("R3", tmpl["git"].get("status", "").split()[:3] == ["git", "status", "--porcelain"],
                  "git status template is `git status --porcelain` (the grammar the parser is checked against)",
                  "vcs template git/status is not the porcelain format", f"{tmpl['git'].get('status')!r}", loc="src/bumpver/vcs.py")
        if "hg" in tmpl:
            ctx.observe("hg marks untracked files with '?', the filter compares with '??' (hg is outside C11's quantifier)")

    except AnalysisError:
        if not decided_status:
            raise
        ctx.observe("VCSAPI.status: the comprehension-shaped rules are not applicable to this spelling; decided by evaluating the function (R4)")
    # ------------------------------------------------------------------ R5
    vcs_marker_rule(ctx, "R5")


def status_eval(ctx, rule: str) -> bool:
    """VCSAPI.status evaluated on every subset of eight porcelain lines (unstaged, staged, deleted, untracked, untracked but
    required, untracked with a blank in its name, untracked whose name differs from a required one in letter case or by a suffix) and a required set: a line is reported iff it is not untracked or its path is
    required; paths are the text after the two status columns, stripped; listing order is kept."""
    import itertools
    from sa.model import CannotFold, EvalError
    prog = ctx.prog
    fn = prog.function("vcs.VCSAPI.status")
    pool = [" M a.txt", "A  b.txt", " D gone.txt", "?? new.txt", "?? req.txt", "?? sub dir/x y.txt", "?? REQ.TXT", "?? ./req.txt2"]          # the last two are not required (other spelling / longer name)
    required = {"req.txt", "a.txt"}
    wrong: T.List[str] = []
    n = 0
    try:
        for k in range(len(pool) + 1):
            for subset in itertools.combinations(pool, k):
                out = "".join(l + "\n" for l in subset)
                env = {fn.params[1] if len(fn.params) > 1 else "required_files": set(required), "__strict__": True, "__stubs__": {fn.params[0]: lambda f, node, out=out: out}}
                try:
                    got, _ys = prog.run_body(fn, env)
                except EvalError as ex:
                    got = f"raises: {ex}"
                want = [l[2:].strip() for l in subset if l[:2] != "??" or l[2:].strip() in required]
                n += 1
                if (list(got) if isinstance(got, (list, tuple)) else got) != want and len(wrong) < 4:
                    wrong.append(f"status lines {list(subset)} -> {got}, expected {want}")
    except (CannotFold, TypeError, AttributeError, KeyError, ValueError, IndexError) as ex:
        ctx.observe(f"vcs.VCSAPI.status not evaluated ({type(ex).__name__}: {str(ex)[:80]})")
        return False
    ctx.check(rule, not wrong, f"VCSAPI.status reports every changed tracked file and every untracked required file ({n} listings evaluated)",
              "vcs.VCSAPI.status: a dirty file is not reported (or an untracked file that carries no pattern is)", "; ".join(wrong[:2]), loc=fn.loc(),
              witness={"status": "?? req.txt together with  M a.txt"})
    return True


def assert_not_dirty_eval(ctx, rule: str) -> None:
    """vcs.assert_not_dirty evaluated with an abstract VCS: it asks status for exactly the configured paths (a dot-file such as
    .bumpver.toml under its own name) and ends the process iff something is dirty without --allow-dirty, or a dirty file is one
    of the configured paths - whatever --allow-dirty says."""
    from sa.model import Abstract, CannotFold, EvalError
    prog = ctx.prog
    fn = prog.function("vcs.assert_not_dirty")
    ctx.visit(fn.fq)
    configured = {".bumpver.toml", "src/a.py", "./README.md"}

    class Exit(Exception):
        pass

    def sys_exit(f: T.Any, node: ast.Call) -> None:
        raise Exit()

    class Api(Abstract):
        name = "git"

        def __init__(self, dirty: T.List[str]):
            self.dirty, self.asked = dirty, []

        def status(self, *a: T.Any, **k: T.Any) -> T.List[str]:
            self.asked.append(a[0] if a else k.get("required_files"))
            return list(self.dirty)
    wrong: T.List[str] = []
    n = 0
    try:
        for dirty in ([], [".bumpver.toml"], ["other.txt"], ["src/a.py", "other.txt"], ["./README.md"], ["bumpver.toml"]):
            for allow in (False, True):
                api = Api(dirty)
                env = dict(zip(fn.params, (api, set(configured), allow)))
                env.update({"__strict__": True, "__stubs__": {"sys.exit": sys_exit}})
                try:
                    prog.run_body(fn, env)
                    exited = False
                except Exit:
                    exited = True
                except EvalError as ex:
                    wrong.append(f"dirty {dirty}: {ex}")
                    continue
                want = bool(dirty and not allow) or bool(set(dirty) & configured)
                n += 1
                if exited != want:
                    wrong.append(f"dirty {dirty}, allow_dirty={allow}: {'aborts' if exited else 'goes on'}")
                if api.asked and api.asked[0] != configured:
                    wrong.append(f"status is asked for {sorted(api.asked[0]) if api.asked[0] is not None else None}, configured {sorted(configured)}")
    except (CannotFold, TypeError, AttributeError, KeyError, ValueError, IndexError) as ex:
        ctx.observe(f"vcs.assert_not_dirty not evaluated ({type(ex).__name__}: {str(ex)[:80]})")
        return
    ctx.check(rule, not wrong, f"assert_not_dirty aborts iff dirty without --allow-dirty or a configured file is dirty; status is asked for the configured paths as given ({n} cases evaluated)",
              "vcs.assert_not_dirty: a dirty pattern file does not stop the update (or the configured paths are altered before the comparison)", "; ".join(sorted(set(wrong))[:3]), loc=fn.loc(),
              witness={"file": ".bumpver.toml"})
