"""C13 - --dry changes nothing and shows exactly what a real run would do."""
from __future__ import annotations

import ast
import typing as T

from sa import shapes
from sa.boolfn import BF
from sa.cfg import handler_can_catch
from sa.model import AnalysisError, call_arg, const_str, unparse, walk_no_nested
from sa.pathcond import PathCond

TECHNIQUE = "effect summaries + path conditions for the dry path; sibling cross-check (diff path vs write path) on iterator, open() keywords, shared computation and argument provenance; raise-site comparison"
EXPLANATION = (
    "(R1) On every path of `update` that is feasible under --dry no file write, mutating VCS command, hook or unclassified "
    "subprocess is reachable, and the diff path's transitive effects are read/echo/exit only.  (R2) The diff path and the "
    "write path are siblings of one computation: per engine they iterate the same file iterator, open files with the same "
    "keywords, obtain the rewritten lines from the same rfd_from_content(patterns, new_vinfo, content) call with arguments of "
    "identical provenance, diff exactly the record whose new_lines the writer joins, and cli derives new_vinfo for both from "
    "the same parse of the same new_version with the engine selected by cfg.is_new_pattern.  (R3) Every validation raise site of the write path is also on the diff path, so an exit-0 dry run implies an exit-0 real run for the rewrite phase."
)
LEVEL_NOTE = ("Not decided: that applying the *printed text* with a patch tool reproduces the files (a property of difflib and of "
              "joining lines that may contain lone CR), and real-run failures that come from VCS state.")

ENGINES = (("v2rewrite", "v2version", "cli._v2_get_diff"), ("v1rewrite", "v1version", "cli._v1_get_diff"))
# the third element is the pinned tree's name of the function that calls <engine>.diff; the function is located by that
# role (the function reachable from cli.get_diff that contains the call), so inlining it into get_diff does not matter


def _diff_callers(prog, effects, rw: str) -> T.List[T.Any]:
    out = []
    for fq in sorted(effects.reachable_functions(["cli.get_diff"])):
        if fq.startswith("cli.") and shapes.find_calls(prog, prog.function(fq), f"{rw}.diff"):
            out.append(prog.function(fq))
    return out


def _open_kwargs(call: ast.Call) -> T.Dict[str, str]:
    return {kw.arg: unparse(kw.value) for kw in call.keywords if kw.arg}


def run(ctx) -> None:
    prog, effects, cfgs = ctx.prog, ctx.effects, ctx.cfgs
    ctx.rule("R1", "--dry: no FS_WRITE / VCS_MUTATE / HOOK / PROC reachable; diff path effects are read/echo/exit only")
    ctx.rule("R2", "diff path and write path agree on iterator, open keywords, rfd_from_content call, record, new_vinfo provenance")
    ctx.rule("R3", "every validation failure of the write path is also a failure of the diff path; staging cannot fail on a configured file that git ignores (`git add --update`)")
    from checks.c10 import command_options_rule
    command_options_rule(ctx, "R3", "add_path")
    ctx.rule("R6", "prerequisite: the real run writes exactly the record the diff was computed from - lines joined with the file's separator, to the configured path itself (C04/R1, R2, R4)")
    from sa.report import run_prerequisite
    run_prerequisite(ctx, "C04", ("R1", "R2", "R4"), "R6")
    run_prerequisite(ctx, "C03", ("R6",), "R6")          # one file, one entry: the diff shows a file once and the write does not overwrite one entry's result with another's
    ctx.rule("R8", "--dry is a flag that is off unless given")
    shapes.cli_option_rule(ctx, "R8", ["--dry"])
    ctx.rule("R7", "a hook script that does not exist is rejected before the dry/real split (option type click.Path(exists=True); configured hooks checked by _parse_config)")
    ctx.rule("R5", "up to the point where the diff is printed a dry run does what a real run does: no statement there mentions `dry` or runs depending on it")
    ctx.rule("R4", "the printed diff is the computed diff: between difflib and click.echo the text is only joined / split at line breaks and trimmed of trailing newlines")

    # ---------------------------------------------------------------- R1
    upd = prog.function("cli.update")
    ctx.visit(upd.fq, "cli._print_diff")
    ucfg = cfgs.get(upd.fq)
    upc = PathCond(ucfg)
    ctx.require("dry" in upc.atoms, "update no longer branches on `dry`")
    neff = shapes.node_effects_lazy(prog, effects, ucfg, cfgs.types(upd.fq))
    n_mut = 0
    for nid, effs in sorted(neff.items()):
        mut = sorted(k for k in effs if k.startswith("VCS_MUTATE") or k in ("HOOK", "FS_WRITE", "PROC", "VCS_UNKNOWN", "DYNAMIC"))
        if not mut or nid not in ucfg.reachable():
            continue
        n_mut += 1
        r = upc.reach(nid)
        ctx.check("R1", r.implies(~BF.var("dry")), f"update: `{ucfg.nodes[nid].text()[:40]}` is unreachable under --dry",
                  "cli.update: --dry can change files or the repository",
                  f"`{ucfg.nodes[nid].text()[:60]}` (L{ucfg.nodes[nid].lineno}) with effects {mut[:3]} is reached when {r.project(['dry']).to_dnf()}",
                  loc=upd.loc(ucfg.nodes[nid].ast), path=effs[mut[0]])
    ctx.floor("R1", "mutating call nodes in update", n_mut, 1)
    pdc = shapes.find_calls(prog, upd, "cli._print_diff")
    ctx.floor("R1", "_print_diff calls in update", len(pdc), 1)
    for c in pdc:
        r = upc.reach(ucfg.node_containing(c))
        # everything that gets as far as the announcement and runs with --dry must print the diff
        from checks.c01 import _announce_sites
        ann = [a for a in _announce_sites(ctx, upd)]
        ctx.require(ann, "update: announcement site not found")
        r_ann = upc.reach(ucfg.node_containing(ann[-1]))
        ctx.check("R1", (r_ann & BF.var("dry")).implies(r), "update: the diff is printed whenever --dry is given", "cli.update: --dry does not always print the diff",
                  f"diff printed when {r.project([a for a in r.atoms if a in ('dry', 'verbose >= 2')]).to_dnf()}", loc=upd.loc(c))
        shapes_ok = [unparse(a) for a in c.args] == ["cfg", "new_version"]
        ctx.check("R1", shapes_ok, "update: _print_diff(cfg, new_version) - same arguments as the real update", "cli.update: the diff is computed for other arguments than the real update", unparse(c), loc=upd.loc(c))
    for fq in ("cli._print_diff", "cli.get_diff", "v2rewrite.diff", "v1rewrite.diff"):
        s = effects.effects_of(fq)
        bad = sorted(k for k in s if k.startswith("VCS_") or k in ("HOOK", "FS_WRITE", "PROC", "DYNAMIC"))
        ctx.check("R1", not bad, f"{fq}: transitive effects are read / echo / log / exit / raise only", f"{fq}: the dry path has side effects", f"{bad}", loc=prog.function(fq).loc(),
                  path=s[bad[0]] if bad else None)
    # dry returns before the update step
    tu = [c_ for c_, _f in shapes.calls_toward(ctx, upd, "cli._update")]
    ctx.require(len(tu) == 1, "update: expected one call that leads to _update")
    r = upc.reach(ucfg.node_containing(tu[0]))
    ctx.check("R1", r.implies(~BF.var("dry")), "update: _try_update only when not dry", "cli.update: the real update runs under --dry", r.project(["dry"]).to_dnf(), loc=upd.loc(tu[0]))

    # everything the real run evaluates before the update step is also evaluated by the dry run:
    # between the dry return and the _try_update call nothing may be computed (it could fail only in the real run)
    dry_tests = [n for n in ucfg.nodes if n.kind == "test" and unparse(n.ast) == "dry"]
    tnode = ucfg.node_containing(tu[0])
    last_dry = [n for n in dry_tests if tnode in ucfg.reachable(n.id) and any(lab == ("F", n.id) for _d, lab in ucfg.succ[n.id])]
    ctx.require(last_dry, "update: no `dry` test precedes _try_update")
    ld = max(last_dry, key=lambda n: n.lineno)
    between = set()
    for dst, lab in ucfg.succ[ld.id]:
        if lab == ("F", ld.id):
            between |= ucfg.reachable(dst)
    between = {nid for nid in between if tnode in ucfg.reachable(nid) and nid != tnode}
    risky = [ucfg.nodes[nid] for nid in sorted(between) if ucfg.nodes[nid].ast is not None and any(isinstance(x, (ast.Call, ast.Subscript)) for x in ast.walk(ucfg.nodes[nid].ast))]
    ctx.check("R1", not risky, "update: nothing is computed between the --dry return and the real update (the dry run evaluates everything the real run does before rewriting)",
              "cli.update: the real run evaluates expressions that the --dry run skips (dry exits 0, the real run can fail before rewriting)",
              f"between `if dry: return` (L{ld.lineno}) and _try_update: {[n.text()[:50] for n in risky[:3]]}", loc=upd.loc(risky[0].ast) if risky else upd.loc(),
              witness={"commit_message": "bump {new_versoin}"})

    # ---------------------------------------------------------------- R2
    n_points = 0
    for rw, ver, getdiff in ENGINES:
        d = prog.function(f"{rw}.diff")
        it = prog.function(f"{rw}.iter_rewritten")
        wf = prog.function(f"{rw}.rewrite_files")
        gds = _diff_callers(prog, effects, rw)
        ctx.require(len(gds) == 1, f"{rw}.diff is called from {len(gds)} functions below cli.get_diff")
        getdiff = gds[0].fq
        ctx.visit(d.fq, it.fq, wf.fq, getdiff)

        def file_loop(fn) -> ast.For:
            ls = [n for n in walk_no_nested(fn.node) if isinstance(n, ast.For) and "iter_path_patterns_items" in unparse(shapes.inline(fn, n.iter, prog))]
            ctx.require(len(ls) == 1 and isinstance(ls[0].target, ast.Tuple) and len(ls[0].target.elts) == 2, f"{fn.fq}: file loop shape changed")
            return ls[0]
        ld, li = file_loop(d), file_loop(it)
        # (1) iterator: the same call with the same arguments on both paths (an extra `missing_ok=True` on the diff path only
        #     makes --dry succeed where the real run fails)
        def core(e: ast.AST, fn: T.Any) -> str:
            t_ = unparse(shapes.inline(fn, e, prog))
            return t_.replace("sorted(", "", 1)[:-1] if t_.startswith("sorted(") else t_
        a, b = core(ld.iter, d), core(li.iter, it)
        ok = a == f"rewrite.iter_path_patterns_items({d.params[2]})" and b == f"rewrite.iter_path_patterns_items({it.params[0]})"
        n_points += 1
        ctx.check("R2", ok, f"{rw}: diff and iter_rewritten iterate rewrite.iter_path_patterns_items(file_patterns)", f"{rw}: diff and write path iterate different file sets", f"{a} vs {b}", loc=d.loc(ld))
        # (2) open keywords
        od = shapes.open_sites_through_helpers(prog, effects, d)
        oi = shapes.open_sites_through_helpers(prog, effects, it)
        ctx.require(len(od) >= 1 and len(oi) >= 1, f"{rw}: no read-open found on the diff or write path")
        kd = {tuple(sorted(k.items())) for _c, _o, _p, k in od}
        ki = {tuple(sorted(k.items())) for _c, _o, _p, k in oi}
        pd_ = {unparse(p) for _c, _o, p, _k in od}
        pi_ = {unparse(p) for _c, _o, p, _k in oi}
        n_points += 1
        ctx.check("R2", kd == ki and pd_ == {unparse(ld.target.elts[0])} and pi_ == {unparse(li.target.elts[0])},
                  f"{rw}: both paths read the iterated file with {dict(sorted(ki)[0]) if ki else None}", f"{rw}: diff path and write path open files differently",
                  f"diff: {sorted(kd)} on {sorted(pd_)}; write: {sorted(ki)} on {sorted(pi_)}", loc=d.loc())
        # (3) rfd_from_content(patterns, new_vinfo, content)
        def rfd_call(fn, loop: ast.For, vinfo_param: str) -> T.Tuple[bool, str]:
            cs = shapes.find_calls(prog, fn, f"{rw}.rfd_from_content")
            if len(cs) != 1:
                return False, f"{len(cs)} calls"
            c = cs[0]
            args = [unparse(x) for x in c.args]
            fvar = unparse(loop.target.elts[0])
            content_ok = len(c.args) >= 3 and (shapes.flows_from(fn, c.args[2], lambda e: isinstance(e, ast.Call) and isinstance(e.func, ast.Attribute) and e.func.attr == "read")
                                               or shapes.flows_from(fn, c.args[2], lambda e: isinstance(e, ast.Call) and any(isinstance(x, ast.Name) and x.id == fvar for x in ast.walk(e))))
            return (len(args) >= 3 and args[0] == unparse(loop.target.elts[1]) and args[1] == vinfo_param and content_ok), unparse(c)
        okd, td = rfd_call(d, ld, d.params[1])
        oki, ti = rfd_call(it, li, it.params[1])
        n_points += 1
        ctx.check("R2", okd and oki, f"{rw}: both paths call rfd_from_content(<patterns of the file>, new_vinfo, <content read>)",
                  f"{rw}: diff path and write path compute the rewritten lines differently", f"diff: {td}; write: {ti}", loc=d.loc())
        # (4) record path + the record diffed is the record computed
        dl = shapes.find_calls(prog, d, "rewrite.diff_lines")
        ok = len(dl) == 1 and shapes.flows_from(d, dl[0].args[0], lambda e: isinstance(e, ast.Call) and unparse(e.func) == "rfd_from_content")
        n_points += 1
        ctx.check("R2", ok, f"{rw}.diff: diff_lines receives the record computed by rfd_from_content", f"{rw}.diff: the diff is not computed from the rewritten record", "", loc=d.loc())
        rep_d = shapes.record_labels(prog, d, rw)
        rep_i = shapes.record_labels(prog, it, rw)
        ok = len(rep_d) == 1 and len(rep_i) == 1 and rep_d[0][1] == f"str({unparse(ld.target.elts[0])})" and rep_i[0][1] == f"str({unparse(li.target.elts[0])})"
        n_points += 1
        ctx.check("R2", ok, f"{rw}: both paths label the record with str(file_path)", f"{rw}: diff and write path label records differently", "", loc=d.loc())
        # (4b) every file of the loop contributes its diff: no iteration skips the accumulation
        dg = cfgs.get(d.fq)
        ret_names = {x.id for r_ in walk_no_nested(d.node) if isinstance(r_, ast.Return) and r_.value is not None for x in ast.walk(shapes.inline(d, r_.value, prog)) if isinstance(x, ast.Name)} | \
                    {x.id for r_ in walk_no_nested(d.node) if isinstance(r_, ast.Return) and r_.value is not None for x in ast.walk(r_.value) if isinstance(x, ast.Name)}
        acc = [n for n in dg.nodes if n.kind == "stmt" and isinstance(n.ast, ast.AugAssign) and isinstance(n.ast.op, ast.Add) and n.id in dg.reachable()
               and any(sub is ld for sub in shapes.enclosing_loops(d, n.ast)) and unparse(n.ast.target) in ret_names]
        ctx.require(len(acc) == 1, f"{rw}.diff: accumulation of per-file diffs not found")
        it_node = [n for n in dg.nodes if n.kind == "iter" and n.stmt is ld]
        ctx.require(len(it_node) == 1, f"{rw}.diff: file loop header not found")
        body_first = [dst for dst, lab in dg.succ[it_node[0].id] if lab == ("iter", "next")]
        skipped = any(it_node[0].id in dg.reachable(b, blocked_nodes=[acc[0].id], skip_exc=True) for b in body_first)
        n_points += 1
        ctx.check("R2", not skipped, f"{rw}.diff: every configured file contributes its diff (no iteration skips the accumulation)",
                  f"{rw}.diff: the printed diff can omit a file that the real run rewrites", "a path through the file loop reaches the next iteration without appending the file's diff", loc=d.loc(ld),
                  witness="a stale file whose patterns render identically for old and new version")
        # (5) the diff shows old_lines -> new_lines of that record
        dlf = prog.function("rewrite.diff_lines")
        ud = [c for c in ast.walk(dlf.node) if isinstance(c, ast.Call) and unparse(c.func).endswith("unified_diff")]
        ok = len(ud) == 1
        if ok:
            kw = _open_kwargs(ud[0])
            pos = [unparse(x) for x in ud[0].args]
            a_ = kw.get("a", pos[0] if pos else None)
            b_ = kw.get("b", pos[1] if len(pos) > 1 else None)
            ok = a_ == f"{dlf.params[0]}.old_lines" and b_ == f"{dlf.params[0]}.new_lines"
        ctx.check("R2", ok, "rewrite.diff_lines: unified_diff(a=rfd.old_lines, b=rfd.new_lines)", "rewrite.diff_lines: the diff is not old_lines -> new_lines of the record", "", loc=dlf.loc())
        # ... on every path: each value diff_lines returns is that unified_diff call (no second, hand-written hunk builder for some inputs)
        for r_ in [n for n in walk_no_nested(dlf.node) if isinstance(n, ast.Return) and n.value is not None]:
            from_ud = shapes.flows_from(dlf, r_.value, lambda e: isinstance(e, ast.Call) and unparse(e.func).endswith("unified_diff"))
            ctx.check("R2", from_ud, f"rewrite.diff_lines L{r_.lineno}: the returned lines are difflib's unified diff",
                      "rewrite.diff_lines: on some path the diff is not produced by difflib.unified_diff",
                      f"`{unparse(r_)[:80]}`: for some records the hunks are built by other code than the one differ the rules know; nothing decides that what it prints applies "
                      f"to the files (hunk ranges, overlapping context) and yields what the real run writes", loc=dlf.loc(r_), witness={"file": "two version lines 5 or 6 lines apart"})
        # (6) cli: same new_vinfo derivation
        gd = prog.function(getdiff)
        upf = prog.function("cli._update")
        pv_fq = f"{ver}.parse_version_info"
        def parsed_new(fn, target_call_fq: str, param: str) -> bool:
            traces = shapes.trace_param(prog, fn, target_call_fq, param)
            if not traces:
                return False
            for v, _c, _chain in traces:
                ok_ = isinstance(v, ast.Call) and [unparse(x) for x in v.args] == ["new_version", "cfg.version_pattern"] and unparse(v.func) == f"{ver}.parse_version_info"
                if not ok_:
                    return False
            return True
        n_points += 1
        ctx.check("R2", parsed_new(gd, f"{rw}.diff", "new_vinfo") and parsed_new(upf, f"{rw}.rewrite_files", "new_vinfo"),
                  f"{rw}: diff and real update derive new_vinfo = {ver}.parse_version_info(new_version, cfg.version_pattern)",
                  f"{rw}: the dry run and the real run render different version infos", "", loc=gd.loc())
        fp_ok = all(unparse(call_arg(c, prog.function(f"{rw}.diff"), "file_patterns") or ast.Constant(0)) == "cfg.file_patterns" for c in shapes.find_calls(prog, gd, f"{rw}.diff"))
        ctx.check("R2", fp_ok, f"{getdiff}: diff over cfg.file_patterns", f"{getdiff}: diff over other files than the configured ones", "", loc=gd.loc())
    ctx.floor("R2", "agreement points (2 engines)", n_points, 12)
    gdf = prog.function("cli.get_diff")
    g = cfgs.get(gdf.fq)
    pc = PathCond(g)
    atom = [a for a in pc.atoms if a.endswith("is_new_pattern")]
    ctx.require(len(atom) == 1, "get_diff: no branch on cfg.is_new_pattern")
    ip13 = ctx.interproc(())
    for rw_, want in (("v2rewrite", BF.var(atom[0])), ("v1rewrite", ~BF.var(atom[0]))):
        caller = _diff_callers(prog, effects, rw_)[0]
        cs = shapes.find_calls(prog, caller, f"{rw_}.diff")
        ctx.require(len(cs) == 1, f"get_diff: {len(cs)} calls of {rw_}.diff")
        r = ip13.site_condition(caller, cs[0], gdf.fq)
        ctx.check("R2", r.project(atom).equiv(want), f"get_diff: {rw_}.diff selected by cfg.is_new_pattern (as in _update)",
                  "cli.get_diff: engine selection differs from the real update", r.to_dnf(), loc=caller.loc(cs[0]))

    # ---------------------------------------------------------------- R3
    # C13 constrains the dry run only when it exits 0: every failure of the real rewrite phase must also be a
    # failure of the diff path, i.e. no validation raise site may exist on the write path only.  (The converse -
    # a raise on the diff path only - is C06/R4's subject and no violation of C13.)
    n_shared = 0
    for rw, _ver, _gd in ENGINES:
        diff_fq, write_fq = f"{rw}.diff", f"{rw}.rewrite_files"
        write_reach = effects.reachable_functions([write_fq])
        diff_reach = effects.reachable_functions([diff_fq])
        for fq in sorted(write_reach):
            fn = prog.function(fq)
            if fn.module.name not in ("rewrite", "parse", rw):
                continue
            for s in effects.sites[fq]:
                if s.effect not in ("RAISE:NoPatternMatch", "RAISE:IOError", "RAISE:OSError"):
                    continue
                n_shared += 1
                ctx.check("R3", fq in diff_reach, f"{fq}: validation raise at L{s.node.lineno} is also on the diff path",
                          f"{fq}: a rewrite failure that the dry run cannot see",
                          f"`{unparse(s.node)[:70]}` is reachable from {write_fq} but not from {diff_fq}: --dry exits 0 while the real run fails", loc=fn.loc(s.node))
    ctx.floor("R3", "validation raise sites on the write paths", n_shared, 4)
    # handlers of _print_diff end the process non-zero
    pd = prog.function("cli._print_diff")
    pcfg = cfgs.get(pd.fq)
    # an exception that leaves _print_diff ends the command with a traceback and a non-zero status as well - unless a caller
    # catches it: the calls of _print_diff must not stand in a try statement whose handlers could take it
    guarded_calls = []
    for caller, call in ctx.interproc().callers.get(pd.fq, []):
        ccfg = cfgs.get(caller.fq)
        nid = ccfg.node_containing(call)
        for hid in shapes.handlers_catching(ccfg, ["NoPatternMatch", "OSError", "Exception"]):
            if nid in shapes.try_body_nodes(ccfg, hid) and "fallthrough" in shapes.handler_outcome(ccfg, hid)["outcomes"]:
                guarded_calls.append(f"{caller.fq} L{call.lineno}")
    for h in shapes.handlers_catching(pcfg, ["NoPatternMatch", "OSError"]):
        oc = shapes.handler_outcome(pcfg, h)["outcomes"]
        ends = lambda o: (o.startswith("exit:") and o not in ("exit:0", "exit:None")) or (o == "raise" and not guarded_calls)
        ctx.check("R3", oc and all(ends(o) for o in oc), f"_print_diff: handler at L{pcfg.nodes[h].lineno} exits non-zero (or lets the error end the command)",
                  "cli._print_diff: a failing diff does not end in a non-zero exit", f"{sorted(oc)}", loc=pd.loc(pcfg.nodes[h].ast))

    # ---------------------------------------------------------------- R4
    # a unified diff contains lines that consist of a single blank (context line of an empty line): trimming anything
    # but '\n' at the end, or any other edit of the text, makes the printed diff not apply / not show what a real run does
    TRIMS = {"strip", "lstrip", "rstrip"}
    EDITS = {"replace", "expandtabs", "lower", "upper", "title", "casefold", "capitalize", "swapcase", "translate", "removeprefix", "removesuffix",
             "zfill", "center", "ljust", "rjust", "format"}
    diff_fns = set()
    for rw, _ver, _gd in ENGINES:
        diff_fns.add(f"{rw}.diff")
    diff_fns |= {fq for fq in effects.reachable_functions(["cli._print_diff"]) if fq.startswith("cli.") or fq == "rewrite.diff_lines"}
    n_fn = 0
    for fq in sorted(diff_fns):
        fn = prog.function(fq)
        n_fn += 1
        ctx.visit(fq)
        # text that is (part of) the diff: parameters / locals named by the data flow from difflib or diff()/get_diff()
        seeds = {p_ for p_ in fn.all_params if "diff" in p_.lower()}
        for _st, tg, val in shapes.iter_assigns(fn.node):
            if any(isinstance(c, ast.Call) and (unparse(c.func).split(".")[-1] in ("diff", "get_diff", "_v1_get_diff", "_v2_get_diff", "diff_lines", "unified_diff")
                                               or unparse(c.func).split(".")[-1].endswith("get_diff")) for c in ast.walk(val)):
                seeds |= {x.id for x in ast.walk(tg) if isinstance(x, ast.Name)}
        tainted = shapes.tainted_names(fn, seeds) if seeds else set()
        # the diff text is not cut: no slice of it, and no helper of these modules receives a line of it and returns a piece
        comp_vars: T.Set[str] = set()
        for cmp_ in ast.walk(fn.node):
            if isinstance(cmp_, (ast.ListComp, ast.GeneratorExp)):
                for g_ in cmp_.generators:
                    if shapes.expr_tainted(g_.iter, tainted):
                        comp_vars |= {x.id for x in ast.walk(g_.target) if isinstance(x, ast.Name)}
        t_all = tainted | comp_vars
        for x in ast.walk(fn.node):
            if isinstance(x, ast.Subscript) and isinstance(x.slice, ast.Slice) and isinstance(x.ctx, ast.Load) and shapes.expr_tainted(x.value, t_all) and fq != "cli._colored_diff_lines":
                ctx.bad("R4", f"{fq}: the diff text is cut before it is printed", f"`{unparse(x)[:80]}`", loc=fn.loc(x), what=f"{fq}: diff text is not cut")
            if isinstance(x, ast.Call) and any(shapes.expr_tainted(a_, t_all) for a_ in x.args):
                t_ = prog.resolve_call(fn, x, count=False)
                if t_.kind == "func" and t_.fn is not None and t_.fn.fq not in diff_fns and t_.fn.module.name in ("rewrite", "cli", "v1rewrite", "v2rewrite"):
                    cuts = [y for y in ast.walk(t_.fn.node) if isinstance(y, ast.Subscript) and isinstance(y.slice, ast.Slice) and isinstance(y.ctx, ast.Load)
                            and any(isinstance(z, ast.Name) and z.id in t_.fn.all_params for z in ast.walk(y.value))]
                    cuts += [y for y in ast.walk(t_.fn.node) if isinstance(y, ast.Call) and isinstance(y.func, ast.Attribute) and (y.func.attr in EDITS or (y.func.attr in TRIMS and not (y.args and set(const_str(y.args[0]) or "x") <= {"\n"})))
                             and any(isinstance(z, ast.Name) and z.id in t_.fn.all_params for z in ast.walk(y.func.value))]
                    ctx.check("R4", not cuts, f"{fq}: helper {t_.fn.fq} passes diff text through unchanged", f"{fq}: the diff text is cut / edited by {t_.fn.fq} before it is printed",
                              f"`{unparse(cuts[0])[:80]}`: the printed hunk no longer matches the file (it cannot be applied and does not show what the real run writes)" if cuts else "",
                              loc=t_.fn.loc(cuts[0]) if cuts else fn.loc(x), witness={"line": "a 300 character line of a minified file"})
        for c in ast.walk(fn.node):
            if not (isinstance(c, ast.Call) and isinstance(c.func, ast.Attribute) and (c.func.attr in TRIMS or c.func.attr in EDITS)):
                continue
            if not shapes.expr_tainted(c.func.value, tainted):
                continue
            if c.func.attr in TRIMS:
                chars = const_str(c.args[0]) if c.args else None
                ok = c.func.attr == "rstrip" and chars is not None and set(chars) <= {"\n"}
                ctx.check("R4", ok, f"{fq} L{c.lineno}: `{unparse(c)}` trims trailing newlines only",
                          f"{fq}: the diff text is trimmed of more than trailing newlines",
                          f"`{unparse(c)}` also removes blanks: a hunk that ends with the context line of an empty line (a line consisting of one space) loses it, "
                          f"the printed diff no longer applies", loc=fn.loc(c), witness={"last diff line": " "})
            else:
                ctx.bad("R4", f"{fq}: the diff text is edited before it is printed", f"`{unparse(c)[:80]}`", loc=fn.loc(c), what=f"{fq}: diff text is not edited")
    ctx.floor("R4", "functions between difflib and click.echo", n_fn, 6)
    # what is printed when stdout is not a terminal is the diff text itself (one echo of the whole text): re-splitting it
    # with str.splitlines() would also break lines at form feeds, vertical tabs, U+2028 ...
    # the printing function: the one on the _print_diff path that branches on isatty() (cli._print_diff_str on the pinned tree)
    pds = None
    for cand_ in ("cli._print_diff_str", "cli._print_diff"):
        if prog.has_function(cand_) and any(isinstance(x_, ast.Attribute) and x_.attr == "isatty" for x_ in ast.walk(prog.function(cand_).node)):
            pds = prog.function(cand_)
            break
    ctx.require(pds is not None, "no function on the _print_diff path branches on sys.stdout.isatty()")
    if pds.qualname == "_print_diff_str":
        text_var = pds.params[0]
    else:
        srcs_ = [tg_.id for _st, tg_, v_ in shapes.iter_assigns(pds.node) if isinstance(tg_, ast.Name) and isinstance(v_, ast.Call) and unparse(v_.func) == "get_diff"]
        ctx.require(len(srcs_) == 1, f"{pds.qualname}: the local holding get_diff(...) was not found")
        text_var = srcs_[0]
    pg = cfgs.get(pds.fq)
    ppc = PathCond(pg)
    tty = [a_ for a_ in ppc.atoms if a_.endswith("isatty()")]
    echoes = [c_ for c_ in ast.walk(pds.node) if isinstance(c_, ast.Call) and unparse(c_.func) in ("click.echo", "print", "sys.stdout.write")]
    ctx.floor("R4", "echo calls in _print_diff_str", len(echoes), 1)
    if len(tty) == 1:
        for c_ in echoes:
            r_ = ppc.reach(pg.node_containing(c_))
            if (r_ & ~BF.var(tty[0])).is_false():
                continue          # only reached on a terminal (coloured output)
            arg = shapes.inline(pds, c_.args[0], prog) if c_.args else None
            raw_ = c_.args[0] if c_.args else None
            plain = any(isinstance(a__, ast.Name) and a__.id == text_var for a__ in (arg, raw_)) and not shapes.enclosing_loops(pds, c_)
            ctx.check("R4", plain, f"{pds.qualname}: without a terminal the diff text `{text_var}` is echoed as it is",
                      f"{pds.fq}: the plain diff is re-assembled before it is printed",
                      f"`{unparse(c_)}`" + (" inside a loop" if shapes.enclosing_loops(pds, c_) else "") + ": lines are split at every Unicode line boundary (form feed, vertical tab, U+2028), "
                      "so a changed or context line containing one is printed as two lines and the output is no longer an applicable unified diff", loc=pds.loc(c_), witness={"line": "page break\x0cnext page"})
            # click.echo removes ANSI escape sequences from its text when the stream is not a terminal (click.utils.echo /
            # should_strip_ansi) unless told `color=True`: escape sequences that are part of a file's content would vanish
            # from the context and changed lines of the printed diff
            if unparse(c_.func) == "click.echo":
                col = [k.value for k in c_.keywords if k.arg == "color"]
                keeps = len(col) == 1 and isinstance(col[0], ast.Constant) and col[0].value is True
                ctx.check("R4", keeps, f"{pds.qualname}: the plain diff is echoed without click's ANSI stripping (color=True)",
                          f"{pds.fq}: escape sequences in file content are stripped from the printed diff",
                          f"`{unparse(c_)}`: click.echo strips ANSI escape sequences when stdout is not a terminal; a pattern file that contains such sequences on a changed or context line "
                          "is printed without them and the diff no longer applies", loc=pds.loc(c_), witness={"file line": "banner \x1b[1mv1.2.3\x1b[0m end"})
    else:
        ctx.require(False, "_print_diff_str: no branch on sys.stdout.isatty()")

    for eng_ in ("v2rewrite", "v1rewrite"):
        write_all_rule(ctx, "R2", eng_)

    # ---------------------------------------------------------------- R5
    pd_nodes = [ucfg.node_containing(c) for c in pdc]
    upstream = set()
    for n in ucfg.nodes:
        if n.id in ucfg.reachable() and n.kind in ("stmt", "iter", "with") and n.id not in pd_nodes and any(p_ in ucfg.reachable(n.id) for p_ in pd_nodes):
            upstream.add(n.id)
    ctx.floor("R5", "statements of update that run before the diff is printed", len(upstream), 10)
    D = BF.var("dry")
    for nid in sorted(upstream):
        n = ucfg.nodes[nid]
        mentions = n.ast is not None and any(isinstance(x, ast.Name) and x.id == "dry" and isinstance(x.ctx, ast.Load) for x in ast.walk(n.ast))
        effs = set(neff.get(nid, {}))
        if n.kind == "stmt" and isinstance(n.ast, ast.Expr) and effs and effs <= {"LOG", "ECHO"} and not mentions:
            continue          # a message that is printed only for dry (or only for real) runs decides nothing
        r = upc.reach(nid)
        dep = "dry" in r.atoms and not r.restrict("dry", True).equiv(r.restrict("dry", False))
        ctx.check("R5", not mentions and not dep, f"update L{n.lineno}: `{n.text()[:50]}` is the same for dry and real runs",
                  "cli.update: a step that determines the new version or the diff behaves differently under --dry",
                  f"`{n.text()[:80]}` (L{n.lineno}) " + ("uses the value of `dry`" if mentions else f"runs when {r.project(['dry']).to_dnf()}") +
                  ": the diff printed by the dry run is not the change a real run with the same arguments makes", loc=upd.loc(n.ast))

    # ---------------------------------------------------------------- R7
    # a dry run never starts the hooks; if a missing hook script were accepted, --dry would exit 0 and the real run fail
    n_hook_opts = 0
    for dec in upd.node.decorator_list:
        if isinstance(dec, ast.Call) and unparse(dec.func).endswith("option") and dec.args and const_str(dec.args[0]) in ("--pre-commit-hook", "--post-commit-hook"):
            n_hook_opts += 1
            ty = shapes.kwargs_of(dec).get("type")
            ex_kw = shapes.kwargs_of(ty).get("exists") if isinstance(ty, ast.Call) and unparse(ty.func).endswith("Path") else None
            ok = isinstance(ex_kw, ast.Constant) and ex_kw.value is True
            ctx.check("R7", ok, f"update: option {const_str(dec.args[0])} must name an existing file (click.Path(exists=True))",
                      f"cli.update: {const_str(dec.args[0])} accepts a path that does not exist",
                      f"`{unparse(ty) if ty is not None else None}`: `update --dry {const_str(dec.args[0])} ./missing.sh` exits 0, the real run with the same arguments rewrites the files and then fails to "
                      f"start the hook", loc=upd.loc(dec), witness={"args": f"--dry {const_str(dec.args[0])} ./no-such-hook.sh"})
    ctx.floor("R7", "hook options of update", n_hook_opts, 2)
    pcfg_fn = prog.function("config._parse_config")
    for hk in ("pre_commit_hook", "post_commit_hook"):
        tests = [n for n in ast.walk(pcfg_fn.node) if isinstance(n, ast.If) and hk in unparse(n.test) and ".exists()" in unparse(n.test) and any(isinstance(x, ast.Raise) for x in ast.walk(n))]
        ctx.check("R7", len(tests) >= 1, f"_parse_config: a configured {hk} that does not exist is rejected", f"config._parse_config: a configured {hk} that does not exist is accepted",
                  "no `if <hook> and not Path(<hook>).exists(): raise` test found", loc=pcfg_fn.loc())


def write_all_rule(ctx, rule: str, eng: str) -> None:
    """<eng>.rewrite_files evaluated with four abstract records (unchanged, changed, unchanged, changed): every record whose
    lines changed is written once, to its own path, opened for text writing with newline='' and utf-8, as line_sep.join(new_lines)."""
    import types
    from sa.model import Abstract, CannotFold, EvalError
    prog = ctx.prog
    fn = prog.function(f"{eng}.rewrite_files")
    ctx.visit(fn.fq)
    recs = [types.SimpleNamespace(path=f"f{i}.txt", line_sep="\r\n" if i % 2 else "\n", old_lines=["a", f"v{i}", ""], new_lines=(["a", f"v{i}", ""] if i in (0, 2) else ["a", f"w{i}", ""]))
            for i in range(4)]
    writes: T.List[T.Tuple[str, T.Dict[str, T.Any], str]] = []

    class F(Abstract):
        def __init__(self, path: T.Any, kw: T.Dict[str, T.Any]):
            self.path, self.kw = path, kw

        def write(self, text: str) -> int:
            writes.append((str(self.path), self.kw, text))
            return len(text)

    def opener(f: T.Any, node: ast.Call) -> F:
        args = [f(a) for a in node.args]
        kw = {k.arg: f(k.value) for k in node.keywords if k.arg}
        if len(args) > 1:
            kw.setdefault("mode", args[1])
        return F(args[0], kw)
    try:
        env = {fn.params[0]: {"CONFIGURED": []}, fn.params[1]: "NEW_VINFO", "__strict__": True, "__calls__": False,
               "__stubs__": {"iter_rewritten": lambda f, node: list(recs), "io.open": opener, "open": opener}}
        try:
            prog.run_body(fn, env)
            err = None
        except EvalError as ex:
            err = str(ex)
    except (CannotFold, TypeError, AttributeError, KeyError, ValueError, IndexError) as ex:
        ctx.observe(f"{fn.fq} not evaluated ({type(ex).__name__}: {str(ex)[:80]})")
        return
    wrong = []
    if err:
        wrong.append(err)
    for r in recs:
        mine = [w for w in writes if w[0] == r.path]
        changed = r.new_lines != r.old_lines
        if changed and len(mine) != 1:
            wrong.append(f"{r.path} (changed) is written {len(mine)} times")
        for _p, kw, text in mine:
            if text != r.line_sep.join(r.new_lines):
                wrong.append(f"{r.path}: written text is not line_sep.join(new_lines)")
            if kw.get("mode") not in ("w", "wt") or kw.get("newline") != "" or str(kw.get("encoding")).lower().replace("-", "") != "utf8":
                wrong.append(f"{r.path}: opened with {kw}")
    ctx.check(rule, not wrong, f"{fn.fq}: every changed record is written once, to its path, as line_sep.join(new_lines) (4 records evaluated)",
              f"{fn.fq}: a file whose lines changed is not written (or not as computed)", "; ".join(wrong[:3]) + " - the real run leaves files behind that --dry showed as changed", loc=fn.loc(),
              witness={"files": "an unchanged pattern file listed before changed ones"})
