"""C07 - literal pattern text matches only itself."""
from __future__ import annotations

import ast
import itertools
import re
import typing as T

try:
    import re._parser as sre_parse
except ImportError:  # pragma: no cover
    import sre_parse  # type: ignore

from sa import shapes
from sa.model import AnalysisError, const_str, unparse, walk_no_nested

TECHNIQUE = "escape-table model extracted from the compiler's loop, applied exhaustively to short literal strings; regex-AST literalness check"
EXPLANATION = (
    "Extracts from each _compile_pattern_re its escaping discipline (the ordered table RE_PATTERN_ESCAPES, the exempted "
    "characters, the absence of regex flags, the bracket look-behind constants) and decides, for every literal string over "
    "printable ASCII without upper-case letters and with brackets only in escaped form - all single characters in four "
    "contexts and all pairs (thorough: all triples) - whether the text the compiler hands to re.compile parses, with "
    "Python's own regex parser, to exactly the literal characters of the input (leading '^' / trailing '$' may be anchors). "
    "The table is the program's data; the compiler function is modelled from its AST, never called."
)
LEVEL_NOTE = ("Exhaustive over characters and pairs (triples in the thorough tier); longer strings follow because escaping is "
              "character-wise (each table entry rewrites one character to backslash+character, checked in R2/R3). "
              "Trusted: re._parser as the definition of regex syntax.")

ALPHABET = [chr(c) for c in range(0x20, 0x7f) if not ("A" <= chr(c) <= "Z") and chr(c) not in "[]"]
UNITS = ALPHABET + ["\\[", "\\]"]          # v2: brackets only in escaped form
UNITS_V1 = ALPHABET + ["[", "]"]               # legacy patterns have no bracket syntax: brackets are plain text


def _extract_model(ctx, fq: str) -> T.Dict[str, T.Any]:
    prog = ctx.prog
    fn = prog.function(fq)
    ctx.visit(fq)
    loops = [n for n in walk_no_nested(fn.node) if isinstance(n, ast.For)]
    ctx.require(len(loops) == 1, f"{fq}: expected one escape loop")
    lp = loops[0]
    ctx.require(isinstance(lp.target, ast.Tuple) and len(lp.target.elts) == 2 and all(isinstance(e, ast.Name) for e in lp.target.elts),
                f"{fq}: escape loop target is not (char, escaped)")
    c_name, e_name = lp.target.elts[0].id, lp.target.elts[1].id
    it = prog.resolve_name(fn.module, lp.iter)
    table = prog.fold(fn.module, lp.iter)
    ctx.require(isinstance(table, list) and all(isinstance(t, tuple) and len(t) == 2 for t in table), f"{fq}: escape table shape")
    # body: [if not <exempt>:] X = X.replace(char, escaped)
    body = lp.body
    exempt: T.Set[str] = set()
    assigns = [n for n in ast.walk(lp) if isinstance(n, ast.Assign) and isinstance(n.value, ast.Call)
               and isinstance(n.value.func, ast.Attribute) and n.value.func.attr == "replace"]
    ctx.require(len(assigns) == 1, f"{fq}: expected exactly one .replace() in the escape loop")
    a = assigns[0]
    tgt = a.targets[0]
    ctx.require(isinstance(tgt, ast.Name) and unparse(a.value.func.value) == tgt.id and [unparse(x) for x in a.value.args] == [c_name, e_name],
                f"{fq}: escape step is not `s = s.replace(char, escaped)`")
    run_var = tgt.id
    # guards on the replace
    conds: T.List[T.Tuple[ast.AST, bool]] = []

    def find(stmts: T.List[ast.stmt], acc: T.List[T.Tuple[ast.AST, bool]]) -> bool:
        for st in stmts:
            if st is a:
                conds.extend(acc)
                return True
            if isinstance(st, ast.If):
                if find(st.body, acc + [(st.test, True)]) or find(st.orelse, acc + [(st.test, False)]):
                    return True
            if isinstance(st, ast.Continue):
                pass
        return False
    ctx.require(find(body, []), f"{fq}: replace statement not found in loop body")
    breaks = [n for n in ast.walk(lp) if isinstance(n, (ast.Break, ast.Continue, ast.Return))]
    ctx.require(not breaks, f"{fq}: escape loop contains break/continue/return (shape not enumerated)")
    for test, pol in conds:
        t = shapes.resolve_alias(fn, test)
        neg = not pol
        while isinstance(t, ast.UnaryOp) and isinstance(t.op, ast.Not):
            neg = not neg
            t = shapes.resolve_alias(fn, t.operand)
        ok = isinstance(t, ast.Compare) and len(t.ops) == 1 and isinstance(t.ops[0], (ast.In, ast.NotIn)) and unparse(t.left) == c_name
        ctx.require(ok, f"{fq}: escape guard `{unparse(test)}` is not a membership test on the character")
        chars = prog.fold(fn.module, t.comparators[0])
        is_in = isinstance(t.ops[0], ast.In)
        # replace happens when (char in chars) == (is_in != neg) ... compute exempt set
        applies_when_in = (is_in and not neg) or (not is_in and neg)
        ctx.require(not applies_when_in, f"{fq}: escape guard applies the table only to listed characters (shape not enumerated)")
        exempt |= set(chars)
    # the running variable starts as the parameter and ends in _replace_pattern_parts -> re.compile
    init = [n for n in walk_no_nested(fn.node) if isinstance(n, ast.Assign) and isinstance(n.targets[0], ast.Name) and n.targets[0].id == run_var and n is not a]
    ctx.require(len(init) == 1 and unparse(init[0].value) == fn.params[0], f"{fq}: running string does not start as the pattern parameter")
    comp = [c for c in ast.walk(fn.node) if isinstance(c, ast.Call) and unparse(c.func) == "re.compile"]
    ctx.require(len(comp) == 1, f"{fq}: expected one re.compile")
    flags = len(comp[0].args) > 1 or bool(comp[0].keywords)
    rp = [c for c in ast.walk(fn.node) if isinstance(c, ast.Call) and unparse(c.func) == "_replace_pattern_parts"]
    ctx.require(len(rp) == 1 and unparse(rp[0].args[0]) == run_var, f"{fq}: escaped string is not what _replace_pattern_parts receives")
    ok_flow = shapes.flows_from(fn, comp[0].args[0], lambda e: e is rp[0])
    ctx.require(ok_flow, f"{fq}: re.compile does not receive the result of _replace_pattern_parts")
    return {"table": table, "exempt": exempt, "flags": flags, "fn": fn, "compile": comp[0]}


def _escape(model: T.Dict[str, T.Any], s: str) -> str:
    for char, escaped in model["table"]:
        if char in model["exempt"]:
            continue
        s = s.replace(char, escaped)
    return s


def _literal_of(units: T.Sequence[str]) -> str:
    return "".join(u[1:] if u in ("\\[", "\\]") else u for u in units)



def _parses_literally(regex_text: str, want: str, first_unit: str, last_unit: str) -> T.Optional[str]:
    """None if regex_text denotes exactly the literal `want` (allowing a leading ^ / trailing $ anchor);
    otherwise a description of the deviation."""
    try:
        tree = sre_parse.parse(regex_text)
    except re.error as ex:
        return f"does not compile ({ex})"
    items = list(tree)
    lits: T.List[str] = []
    for i, (op, av) in enumerate(items):
        name = str(op)
        if name == "LITERAL":
            lits.append(chr(av))
        elif name == "AT" and i == 0 and first_unit == "^" and str(av) == "AT_BEGINNING":
            continue
        elif name == "AT" and i == len(items) - 1 and last_unit == "$" and str(av) == "AT_END":
            continue
        else:
            return f"contains the regex construct {name}"
    got = "".join(lits)
    expect = want
    if first_unit == "^" and items and str(items[0][0]) == "AT":
        expect = expect[1:]
    if last_unit == "$" and items and str(items[-1][0]) == "AT":
        expect = expect[:-1]
    if got != expect:
        return f"denotes {got!r} instead of {expect!r}"
    return None


def run(ctx) -> None:
    prog = ctx.prog
    ctx.rule("R1", "every literal string (chars in 4 contexts, all pairs; thorough: triples) compiles to its own literal text")
    ctx.rule("R2", "each table entry rewrites one character to backslash + that character")
    ctx.rule("R3", "the table is applied completely, once, with no regex flags; backslash first where it is not exempt")
    ctx.rule("R4", "exempted characters are consumed by a dedicated step (bracket look-behind; backslash)")
    ctx.rule("R5", "rendering inverts the escapes and drops anchors")

    table = prog.const("patterns", "RE_PATTERN_ESCAPES")
    ctx.floor("R2", "escape table entries", len(table), 12)
    for char, esc in table:
        ctx.check("R2", isinstance(char, str) and len(char) == 1 and esc == "\\" + char,
                  f"escape entry {char!r} -> {esc!r} is backslash + character",
                  f"patterns.RE_PATTERN_ESCAPES[{char!r}] is not the exact escape", f"{char!r} -> {esc!r}", loc="src/bumpver/patterns.py")
    keys = [c for c, _ in table]
    ctx.check("R2", len(set(keys)) == len(keys), "escape table has no duplicate characters",
              "patterns.RE_PATTERN_ESCAPES lists a character twice (double escaping)", f"{keys}", loc="src/bumpver/patterns.py")

    engines = {"v2": "v2patterns._compile_pattern_re", "v1": "v1patterns._compile_pattern_re"}
    for eng, fq in engines.items():
        model = _extract_model(ctx, fq)
        fn = model["fn"]
        ctx.check("R3", not model["flags"], f"{fq}: re.compile without flags (no VERBOSE/IGNORECASE)",
                  f"{fq}: pattern compiled with regex flags", unparse(model["compile"]), loc=fn.loc(model["compile"]))
        ctx.check("R3", model["table"] == table, f"{fq}: loops over the whole RE_PATTERN_ESCAPES table",
                  f"{fq}: escape loop does not iterate the shared table", "", loc=fn.loc())
        if "\\" not in model["exempt"]:
            bs = [i for i, (c, _) in enumerate(model["table"]) if c == "\\"]
            ctx.check("R3", bs == [0], f"{fq}: backslash entry comes first (no double escaping)",
                      f"{fq}: backslash is escaped after other entries (their backslashes get doubled)", f"index {bs}", loc="src/bumpver/patterns.py")
        expect_exempt = set("[]\\") if eng == "v2" else set()
        ctx.check("R3", model["exempt"] <= expect_exempt, f"{fq}: exempted characters {sorted(model['exempt'])} ⊆ {sorted(expect_exempt)}",
                  f"{fq}: more characters than brackets/backslash are exempt from escaping", f"exempt: {sorted(model['exempt'])}", loc=fn.loc())

        # ----------------------------------------------------------- R1: exhaustive short strings
        UNITS_E = UNITS if eng == "v2" else UNITS_V1
        tests: T.List[T.Tuple[str, ...]] = []
        for u in UNITS_E:
            tests += [(u,), ("a", u), (u, "a"), ("a", u, "b")]
        tests += list(itertools.product(UNITS_E, repeat=2))
        if ctx.tier == "thorough":
            tests += list(itertools.product(UNITS_E, repeat=3))
        seen: T.Set[T.Tuple[str, ...]] = set()
        bad_by_char: T.Dict[str, T.Tuple[str, str]] = {}
        n_tests = 0
        for t in tests:
            if t in seen:
                continue
            seen.add(t)
            n_tests += 1
            text = "".join(t)
            if eng == "v1" and ("{" in text and "}" in text):
                continue            # braces are part syntax in legacy patterns
            regex_text = _escape(model, text)
            dev = _parses_literally(regex_text, _literal_of(t), t[0], t[-1])
            if dev is None:
                continue
            # attribute to the first unit whose single-character embedding already fails, else to the string
            culprit = None
            for u in t:
                for emb in ((u,), ("a", u, "b")):
                    if _parses_literally(_escape(model, "".join(emb)), _literal_of(emb), emb[0], emb[-1]) is not None:
                        culprit = u
                        break
                if culprit:
                    break
            key = culprit if culprit is not None else text
            if key not in bad_by_char or len(text) < len(bad_by_char[key][0]):
                bad_by_char[key] = (text, f"{regex_text!r} {dev}")
        ctx.notes[f"{eng}_strings_tested"] = n_tests
        ctx.floor("R1", f"literal strings tested for {eng}", n_tests, 4000)
        for u in UNITS_E:
            if u in bad_by_char:
                text, dev = bad_by_char[u]
                where = "mid-pattern " if u in "^$" else ""
                ctx.bad("R1", f"{eng}: {where}character {u!r} in a search pattern is not matched literally",
                        f"pattern text {text!r} is compiled to {dev}", loc=fn.loc(), witness={"pattern": text, "regex": _escape(model, text)},
                        what=f"{eng}: character {u!r} compiles to its own literal in every context")
            else:
                ctx.ok("R1", f"{eng}: character {u!r} compiles to its own literal in every context (alone, a·, ·a, a·b, all pairs)")
        for key, (text, dev) in sorted(bad_by_char.items()):
            if key not in UNITS_E:
                ctx.bad("R1", f"{eng}: literal text {key!r} is not matched literally", f"compiled to {dev}", loc=fn.loc(), witness={"pattern": text})

    # ---------------------------------------------------------------- R4 bracket look-behind
    rpp = prog.function("v2patterns._replace_pattern_parts")
    ctx.visit(rpp.fq)
    subs = [c for c in ast.walk(rpp.node) if isinstance(c, ast.Call) and unparse(c.func) in ("re.subn", "re.sub")]
    ctx.floor("R4", "bracket rewrite steps in _replace_pattern_parts", len(subs), 2)
    want = {"[": "(?:", "]": ")?"}
    found = {}
    for c in subs:
        pat, rep = const_str(c.args[0]), const_str(c.args[1])
        ctx.require(pat is not None and rep is not None, "bracket rewrite uses non-constant regex")
        tree = list(sre_parse.parse(pat))
        ok = len(tree) == 2 and str(tree[0][0]) == "SUBPATTERN" and str(tree[1][0]) == "LITERAL" and chr(tree[1][1]) in "[]"
        if ok:
            br = chr(tree[1][1])
            sub = list(tree[0][1][3])
            alts = sub[0][1][1] if len(sub) == 1 and str(sub[0][0]) == "BRANCH" else None
            kinds = sorted(str(list(a)[0][0]) + ":" + str(list(a)[0][1]) for a in alts) if alts else []
            ok = kinds == ["AT:AT_BEGINNING", "NOT_LITERAL:92"] and rep == "\\1" + want[br]
            found[br] = ok
            ctx.check("R4", ok, f"_replace_pattern_parts: unescaped {br!r} (not preceded by backslash) -> {want[br]!r}",
                      f"v2patterns._replace_pattern_parts: rewrite of {br!r} does not respect the backslash escape", f"{pat!r} -> {rep!r}", loc=rpp.loc(c))
        else:
            ctx.bad("R4", "v2patterns._replace_pattern_parts: bracket rewrite regex shape changed", f"{pat!r}", loc=rpp.loc(c))
    ctx.check("R4", set(found) == {"[", "]"}, "both brackets have a rewrite step", "v2patterns._replace_pattern_parts: a bracket has no rewrite step",
              f"{sorted(found)}", loc=rpp.loc())

    # ---------------------------------------------------------------- R5 rendering
    fs = prog.function("v2version._format_segment")
    ctx.visit(fs.fq)
    reps = {}
    for c in ast.walk(fs.node):
        if isinstance(c, ast.Call) and isinstance(c.func, ast.Attribute) and c.func.attr == "replace" and len(c.args) == 2:
            a0, a1 = const_str(c.args[0]), const_str(c.args[1])
            if a0 is not None and a1 is not None:
                reps[a0] = a1
    for src, dst in (("\\[", "["), ("\\]", "]"), ("^", ""), ("$", "")):
        ctx.check("R5", reps.get(src) == dst, f"_format_segment renders {src!r} as {dst!r}",
                  f"v2version._format_segment: {src!r} is not rendered as {dst!r}", f"replacements: {reps}", loc=fs.loc())
