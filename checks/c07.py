"""C07 - literal pattern text matches only itself."""
from __future__ import annotations

import ast
import itertools
import re
import typing as T

try:
    import re._parser as sre_parse
except ImportError:  # pragma: no cover
    import sre_parse  # type: ignore

from sa import shapes
from sa.model import AnalysisError, const_str, unparse, walk_no_nested

TECHNIQUE = "escape-table model extracted from the compiler's loop, applied exhaustively to short literal strings; regex-AST literalness check"
EXPLANATION = (
    "Extracts from each _compile_pattern_re its escaping discipline (the ordered table RE_PATTERN_ESCAPES, the exempted "
    "characters, the absence of regex flags, the bracket look-behind constants) and decides, for every literal string over "
    "printable ASCII without upper-case letters and with brackets only in escaped form - all single characters in four "
    "contexts and all pairs (thorough: all triples) - whether the text the compiler hands to re.compile parses, with "
    "Python's own regex parser, to exactly the literal characters of the input (leading '^' / trailing '$' may be anchors). "
    "The table is the program's data; the compiler function is modelled from its AST, never called."
)
LEVEL_NOTE = ("Exhaustive over characters and pairs (triples in the thorough tier); longer strings follow because escaping is "
              "character-wise (each table entry rewrites one character to backslash+character, checked in R2/R3). "
              "Trusted: re._parser as the definition of regex syntax.")

ALPHABET = [chr(c) for c in range(0x20, 0x7f) if not ("A" <= chr(c) <= "Z") and chr(c) not in "[]"]
UNITS = ALPHABET + ["\\[", "\\]"]          # v2: brackets only in escaped form
UNITS_V1 = ALPHABET + ["[", "]"]               # legacy patterns have no bracket syntax: brackets are plain text


def _extract_model(ctx, fq: str) -> T.Dict[str, T.Any]:
    """Extract the escaping pipeline of a _compile_pattern_re as a list of constant string operations:
    ('replace', old, new) and ('sub', regex, replacement).  Loops over folded tables are unrolled, guards are
    constant-folded per iteration.  Anything else is outside the model (ANALYSIS-ERROR)."""
    prog = ctx.prog
    merged_slice = None
    if not prog.has_function(fq):
        # the compiler function was merged into its caller: the pipeline is the run of statements of the one function of the module
        # that walks RE_PATTERN_ESCAPES, from the statement that hands the normalised text to the loop up to the re.compile call
        modname = fq.split(".")[0]
        hosts = [f_ for f_ in prog.module(modname).functions.values()
                 if any(isinstance(l_, ast.For) and unparse(l_.iter) == "RE_PATTERN_ESCAPES" for l_ in walk_no_nested(f_.node))
                 and any(isinstance(c_, ast.Call) and unparse(c_.func) == "re.compile" for c_ in walk_no_nested(f_.node))]
        if len(hosts) != 1:
            raise AnalysisError(f"anchor function vanished: {fq}")
        fn = hosts[0]
        body_ = [st for st in fn.node.body if not (isinstance(st, ast.Expr) and isinstance(st.value, ast.Constant))]
        first = next(i_ for i_, st in enumerate(body_) if isinstance(st, ast.For) and unparse(st.iter) == "RE_PATTERN_ESCAPES")
        last = next(i_ for i_, st in enumerate(body_) if any(isinstance(c_, ast.Call) and unparse(c_.func) == "re.compile" for c_ in ast.walk(st)))
        loop_vars = {t_.id for a_ in ast.walk(body_[first]) if isinstance(a_, ast.Assign) for t_ in a_.targets if isinstance(t_, ast.Name)}
        root = None
        if first > 0 and isinstance(body_[first - 1], (ast.Assign, ast.AnnAssign)) and isinstance(body_[first - 1].value, ast.Name):
            tgt0 = body_[first - 1].targets[0] if isinstance(body_[first - 1], ast.Assign) else body_[first - 1].target
            if isinstance(tgt0, ast.Name) and tgt0.id in loop_vars:
                root, first = body_[first - 1].value.id, first - 1
        if root is None and len(loop_vars) == 1:
            root = next(iter(loop_vars))
        if root is None or last < first:
            raise AnalysisError(f"anchor function vanished: {fq} (merged into {fn.fq}, pipeline not delimited)")
        merged_slice = (body_[first:last + 1], root)
        fq = fn.fq
    else:
        fn = prog.function(fq)
    ctx.visit(fq)
    mod = fn.module
    steps: T.List[T.Tuple[str, str, str]] = []
    running = {fn.params[0]} if merged_slice is None else {merged_slice[1]}
    info: T.Dict[str, T.Any] = {"table_loops": [], "exempt": set(), "final": None, "flags": False, "compile": None, "fn": fn}

    def fold(e: ast.AST, env: T.Dict[str, T.Any]) -> T.Any:
        return prog.fold(mod, e, env)

    def transform_of(e: ast.AST, env: T.Dict[str, T.Any]) -> T.Optional[T.Tuple[str, T.Tuple[str, str, str]]]:
        """If e transforms a running variable return (that variable, step)."""
        if isinstance(e, ast.Subscript) and isinstance(e.slice, ast.Constant) and e.slice.value == 0:
            e = e.value      # re.subn(...)[0]
        if not isinstance(e, ast.Call):
            return None
        f = e.func
        if isinstance(f, ast.Attribute) and f.attr == "replace" and isinstance(f.value, ast.Name) and f.value.id in running and len(e.args) == 2:
            return f.value.id, ("replace", fold(e.args[0], env), fold(e.args[1], env))
        if unparse(f) in ("re.sub", "re.subn") and len(e.args) >= 3 and isinstance(e.args[2], ast.Name) and e.args[2].id in running and not e.keywords and len(e.args) == 3:
            return e.args[2].id, ("sub", fold(e.args[0], env), fold(e.args[1], env))
        if isinstance(f, ast.Attribute) and f.attr in ("sub", "subn") and isinstance(f.value, ast.Name) and len(e.args) == 2 and isinstance(e.args[1], ast.Name) and e.args[1].id in running:
            node = prog.const_node(mod.name, f.value.id) if f.value.id in mod.consts else None
            if isinstance(node, ast.Call) and unparse(node.func) == "re.compile" and len(node.args) == 1 and not node.keywords:
                return e.args[1].id, ("sub", fold(node.args[0], {}), fold(e.args[0], env))
        return None

    def run(stmts: T.List[ast.stmt], env: T.Dict[str, T.Any]) -> None:
        for st in stmts:
            if isinstance(st, ast.Expr):
                continue
            if isinstance(st, (ast.Assign, ast.AnnAssign)):
                tgt = st.targets[0] if isinstance(st, ast.Assign) else st.target
                val = st.value
                if val is None:
                    continue
                if isinstance(tgt, ast.Tuple) and isinstance(val, ast.Call) and unparse(val.func) == "re.subn" and isinstance(tgt.elts[0], ast.Name):
                    tr = transform_of(val, env)
                    if tr:
                        steps.append(tr[1])
                        running.add(tgt.elts[0].id)
                        continue
                ctx.require(isinstance(tgt, ast.Name), f"{fq}: assignment target `{unparse(tgt)}` outside the model")
                if isinstance(val, ast.Name) and val.id in running:
                    running.add(tgt.id)
                    continue
                tr = transform_of(val, env)
                if tr is not None:
                    steps.append(tr[1])
                    running.add(tgt.id)
                    continue
                if isinstance(val, ast.Call) and unparse(val.func) == "_replace_pattern_parts" and len(val.args) == 1 and isinstance(val.args[0], ast.Name) and val.args[0].id in running:
                    info["final"] = tgt.id
                    continue
                if merged_slice is not None and isinstance(val, ast.Call) and unparse(val.func) == "re.compile":
                    run([ast.copy_location(ast.Return(value=val), st)], env)          # `regexp = re.compile(...)` ends the merged pipeline
                    continue
                if info["final"] not in (None, "<inline>") and any(isinstance(x, ast.Name) and x.id == info["final"] for x in ast.walk(val)):
                    # the regex text is edited again after the parts were substituted (a rewrite of the *compiled* text, not of the pattern)
                    info["wrapped"] = val
                    if tgt.id != info["final"]:
                        info["final_alias"] = tgt.id
                    continue
                try:
                    env[tgt.id] = fold(val, env)
                except AnalysisError:
                    raise AnalysisError(f"{fq}: statement `{unparse(st)[:70]}` is outside the escaping model")
                continue
            if isinstance(st, ast.For):
                items = fold(st.iter, env)
                is_table = unparse(st.iter) == "RE_PATTERN_ESCAPES"
                if is_table:
                    info["table_loops"].append(st)
                for item in items:
                    env2 = dict(env)
                    if isinstance(st.target, ast.Tuple):
                        for t, v in zip(st.target.elts, item):
                            env2[t.id] = v
                    else:
                        env2[st.target.id] = item
                    before = len(steps)
                    try:
                        run(st.body, env2)
                    except _LoopContinue:
                        pass
                    if is_table and len(steps) == before:
                        info["exempt"].add(item[0])
                continue
            if isinstance(st, ast.If):
                try:
                    cond = bool(_fold_guard(prog, fn, st.test, env))
                except AnalysisError:
                    raise AnalysisError(f"{fq}: guard `{unparse(st.test)[:60]}` is not a constant test on the table character")
                run(st.body if cond else st.orelse, env)
                continue
            if isinstance(st, ast.Continue):
                raise _LoopContinue()
            if isinstance(st, ast.Return):
                v = st.value
                ctx.require(isinstance(v, ast.Call) and unparse(v.func) == "re.compile", f"{fq}: does not return re.compile(...)")
                info["compile"] = v
                info["flags"] = len(v.args) > 1 or bool(v.keywords)
                arg = v.args[0]
                if isinstance(arg, ast.Call) and unparse(arg.func) == "_replace_pattern_parts" and isinstance(arg.args[0], ast.Name) and arg.args[0].id in running:
                    info["final"] = "<inline>"
                elif isinstance(arg, ast.Name) and arg.id in (info["final"], info.get("final_alias")):
                    pass
                elif any(isinstance(x, ast.Name) and x.id == info["final"] for x in ast.walk(arg)):
                    info["wrapped"] = arg          # the text is edited once more between escaping and compiling
                else:
                    raise AnalysisError(f"{fq}: re.compile does not receive the result of _replace_pattern_parts")
                continue
            raise AnalysisError(f"{fq}: statement `{unparse(st)[:70]}` is outside the escaping model")

    body = [st for st in fn.node.body if not (isinstance(st, ast.Expr) and isinstance(st.value, ast.Constant))] if merged_slice is None else merged_slice[0]
    run(body, {})
    ctx.require(info["final"] is not None and info["compile"] is not None, f"{fq}: escaped text does not reach _replace_pattern_parts / re.compile")
    info["steps"] = steps
    return info


class _LoopContinue(Exception):
    pass


def bracket_groups_eval(ctx, rule: str) -> bool:
    """v2patterns._compile_pattern_re evaluated as a whole (its helpers included, `re.compile` by the standard library) on
    patterns with optional groups, nested groups and escaped brackets inside and outside groups: the compiled expression
    accepts exactly the texts with each group present or absent, `\[` / `\]` standing for brackets.  False when the
    functions are outside what the evaluator handles."""
    import re as _re
    from sa.model import CannotFold, EvalError
    prog = ctx.prog
    fn = prog.function("v2patterns._compile_pattern_re") if prog.has_function("v2patterns._compile_pattern_re") else None
    if fn is None:
        return False
    cases = [("MAJOR.MINOR[.PATCH]", ["1.2", "1.2.3"], ["1.2.", "1x2", "1.2.3.4"]),
             ("vMAJOR[-TAG[NUM]]", ["v1", "v1-rc", "v1-rc2"], ["v1-", "v1rc", "v12-"]),
             ("Latest: MAJOR.MINOR[ \\[TAG\\]]", ["Latest: 1.2", "Latest: 1.2 [beta]"], ["Latest: 1.2 ", "Latest: 1.2 beta", "Latest: 1.2 [beta"]),
             ("\\[MAJOR\\]", ["[1]"], ["1", "[1", "1]"]),
             ("MAJOR[.MINOR][-TAG]", ["1", "1.2", "1-rc", "1.2-rc"], ["1.", "1-", "1..2"])]
    wrong: T.List[str] = []
    try:
        for pat, yes, no in cases:
            try:
                rx, _ys = prog.run_body(fn, {fn.params[0]: pat, "__strict__": None, "__calls__": True})
            except EvalError as ex:
                wrong.append(f"{pat!r}: {ex}")
                continue
            if not isinstance(rx, _re.Pattern):
                raise CannotFold("the compiler does not return a compiled expression")
            bad = [t_ for t_ in yes if not rx.fullmatch(t_)] + [t_ for t_ in no if rx.fullmatch(t_)]
            if bad and len(wrong) < 3:
                wrong.append(f"{pat!r} compiles to {rx.pattern!r}: wrong for {bad}")
    except (CannotFold, TypeError, AttributeError, KeyError, ValueError, IndexError, _re.error) as ex:
        ctx.observe(f"v2patterns._compile_pattern_re not evaluated as a whole ({type(ex).__name__}: {str(ex)[:80]})")
        return False
    ctx.check(rule, not wrong, "v2: optional groups, nested groups and escaped brackets compile to what they say (5 patterns evaluated, standard-library re)",
              "v2patterns._replace_pattern_parts: brackets of a search pattern are not compiled to optional groups / literal brackets",
              "; ".join(wrong[:2]) + ": the occurrence is not found, or a different text is matched and rewritten", loc=fn.loc(), witness={"pattern": wrong[0].split(" compiles")[0] if wrong else ""})
    return True


def _fold_guard(prog, fn, test: ast.AST, env: T.Dict[str, T.Any], depth: int = 0) -> T.Any:
    if isinstance(test, ast.Name) and test.id in env:
        return env[test.id]
    if isinstance(test, ast.BoolOp):
        vals = [_fold_guard(prog, fn, v, env, depth) for v in test.values]
        return all(vals) if isinstance(test.op, ast.And) else any(vals)
    if isinstance(test, ast.UnaryOp) and isinstance(test.op, ast.Not):
        return not _fold_guard(prog, fn, test.operand, env, depth)
    return prog.fold(fn.module, test, env)


def _escape(model: T.Dict[str, T.Any], s: str) -> str:
    if model.get("eval"):
        return _escape_by_eval(model, s)
    for kind, a, b in model["steps"]:
        if kind == "replace":
            s = s.replace(a, b)
        else:
            s = re.sub(a, b, s)
    return s


def _escape_by_eval(model: T.Dict[str, T.Any], s: str) -> str:
    """The text handed to re.compile by the compiler function for the pattern text `s`, by evaluating its body."""
    from sa.model import CannotFold, EvalError
    fn = model["fn"]
    prog = model.get("prog")
    stubs = {"re.compile": lambda f, node: f(node.args[0]), "_replace_pattern_parts": lambda f, node: f(node.args[0])}
    try:
        ret, _ys = prog.run_body(fn, {fn.params[0]: s, "__strict__": True, "__stubs__": stubs})
    except EvalError as ex:
        return f"(?#raises {ex})("          # does not compile: reported as such
    except (CannotFold, TypeError, AttributeError, KeyError, ValueError, IndexError) as ex:
        raise AnalysisError(f"{fn.fq}: neither modelled nor evaluable ({type(ex).__name__}: {str(ex)[:80]})")
    if not isinstance(ret, str):
        raise AnalysisError(f"{fn.fq}: evaluation did not yield the compiled text")
    return ret


def _literal_of(units: T.Sequence[str]) -> str:
    return "".join(u[1:] if u in ("\\[", "\\]") else u for u in units)



def _parses_literally(regex_text: str, want: str, first_unit: str, last_unit: str) -> T.Optional[str]:
    """None if regex_text denotes exactly the literal `want` (allowing a leading ^ / trailing $ anchor);
    otherwise a description of the deviation."""
    try:
        tree = sre_parse.parse(regex_text)
    except re.error as ex:
        return f"does not compile ({ex})"
    items = list(tree)
    lits: T.List[str] = []
    for i, (op, av) in enumerate(items):
        name = str(op)
        if name == "LITERAL":
            lits.append(chr(av))
        elif name == "AT" and i == 0 and first_unit == "^" and str(av) == "AT_BEGINNING":
            continue
        elif name == "AT" and i == len(items) - 1 and last_unit == "$" and str(av) == "AT_END":
            continue
        else:
            return f"contains the regex construct {name}"
    got = "".join(lits)
    expect = want
    if first_unit == "^" and items and str(items[0][0]) == "AT":
        expect = expect[1:]
    if last_unit == "$" and items and str(items[-1][0]) == "AT":
        expect = expect[:-1]
    if got != expect:
        return f"denotes {got!r} instead of {expect!r}"
    return None


STR_EDITS = {"strip", "lstrip", "rstrip", "replace", "lower", "upper", "title", "casefold", "capitalize", "swapcase", "expandtabs",
             "translate", "format", "removeprefix", "removesuffix", "zfill", "center", "ljust", "rjust", "encode", "splitlines", "split", "rsplit",
             "partition", "rpartition"}


def _pattern_text_edits(fn) -> T.Optional[T.List[T.Tuple[ast.Call, str]]]:
    """Calls in fn that transform a string taken from raw_cfg['file_patterns'] (flow-insensitive taint from the
    subscript / .get('file_patterns') / a RawPatternsByFile parameter).  None: fn does not handle file_patterns."""
    def seed(e: ast.AST) -> bool:
        if isinstance(e, ast.Subscript) and const_str(e.slice) == "file_patterns":
            return True
        if isinstance(e, ast.Call) and isinstance(e.func, ast.Attribute) and e.func.attr in ("get", "pop", "setdefault") and e.args and const_str(e.args[0]) == "file_patterns":
            return True
        return False
    names: T.Set[str] = set()
    for a in fn.node.args.args + fn.node.args.kwonlyargs:
        if a.annotation is not None and ("RawPatternsByFile" in unparse(a.annotation) or "FileRawPatternsItem" in unparse(a.annotation)):
            names.add(a.arg)
    def tainted(e: ast.AST, local: T.Set[str]) -> bool:
        if seed(e):
            return True
        if isinstance(e, ast.Name):
            return e.id in local
        if isinstance(e, (ast.ListComp, ast.SetComp, ast.GeneratorExp, ast.DictComp)):
            loc2 = set(local)
            for g in e.generators:
                if tainted(g.iter, loc2):
                    loc2 |= {x.id for x in ast.walk(g.target) if isinstance(x, ast.Name)}
            elts = [e.elt] if not isinstance(e, ast.DictComp) else [e.key, e.value]
            return any(tainted(x, loc2) for x in elts)
        return any(tainted(c, local) for c in ast.iter_child_nodes(e))
    handles = bool(names) or any(seed(n) for n in ast.walk(fn.node))
    if not handles:
        return None
    changed = True
    while changed:
        changed = False
        for n in walk_no_nested(fn.node):
            tgts: T.List[ast.AST] = []
            val: T.Optional[ast.AST] = None
            if isinstance(n, ast.Assign):
                tgts, val = list(n.targets), n.value
            elif isinstance(n, ast.AnnAssign) and n.value is not None:
                tgts, val = [n.target], n.value
            elif isinstance(n, (ast.For, ast.comprehension)):
                tgts, val = [n.target], n.iter
            elif isinstance(n, ast.NamedExpr):
                tgts, val = [n.target], n.value
            if val is None or not tainted(val, names):
                continue
            for t in tgts:
                if isinstance(t, ast.Tuple) and len(t.elts) == 2 and isinstance(val, ast.Call) and isinstance(val.func, ast.Attribute) and val.func.attr == "items":
                    t = t.elts[1]          # `for path, patterns in X.items()`: the key is a file path, not pattern text
                for x in ast.walk(t):
                    if isinstance(x, ast.Name) and x.id not in names:
                        names.add(x.id)
                        changed = True
    out: T.List[T.Tuple[ast.Call, str]] = []
    # comprehension variables: evaluate with the comprehension's own scope
    def scan(e: ast.AST, local: T.Set[str]) -> None:
        if isinstance(e, (ast.ListComp, ast.SetComp, ast.GeneratorExp, ast.DictComp)):
            loc2 = set(local)
            for g in e.generators:
                scan(g.iter, loc2)
                if tainted(g.iter, loc2):
                    loc2 |= {x.id for x in ast.walk(g.target) if isinstance(x, ast.Name)}
                for c in g.ifs:
                    scan(c, loc2)
            for x in ([e.elt] if not isinstance(e, ast.DictComp) else [e.key, e.value]):
                scan(x, loc2)
            return
        if isinstance(e, ast.Call):
            if isinstance(e.func, ast.Attribute) and e.func.attr in STR_EDITS and tainted(e.func.value, local):
                out.append((e, f"`.{e.func.attr}()` is applied to a configured search pattern"))
            elif unparse(e.func) in ("re.sub", "re.subn") and any(tainted(a, local) for a in e.args[2:3]):
                out.append((e, "`re.sub` is applied to a configured search pattern"))
        for c in ast.iter_child_nodes(e):
            scan(c, local)
    scan(fn.node, names)
    # a test such as `if p.strip()` does not change the text: keep only calls whose value is stored, returned, yielded or passed on
    parents: T.Dict[int, ast.AST] = {}
    for n in ast.walk(fn.node):
        for c in ast.iter_child_nodes(n):
            parents[id(c)] = n
    def is_test_only(call: ast.Call) -> bool:
        cur: ast.AST = call
        while id(cur) in parents:
            par = parents[id(cur)]
            if isinstance(par, (ast.If, ast.While, ast.IfExp, ast.Assert)) and par.test is cur:
                return True
            if isinstance(par, ast.comprehension) and cur in par.ifs:
                return True
            if isinstance(par, (ast.BoolOp, ast.UnaryOp, ast.Compare)):
                cur = par
                continue
            return False
        return False
    return [(c, w) for c, w in out if not is_test_only(c)]


def ini_verbatim_rule(ctx, rule: str) -> None:
    """Values of a setup.cfg reach bumpver as written: no %-interpolation, no inline-comment stripping."""
    prog = ctx.prog
    cp = prog.klass("config._ConfigParser")
    raw = any(b.endswith("RawConfigParser") for b in cp.bases)
    used = [c for c in ast.walk(prog.function("config._parse_cfg").node) if isinstance(c, ast.Call) and unparse(c.func) in ("_ConfigParser", "configparser.RawConfigParser", "configparser.ConfigParser")]
    ctx.require(len(used) == 1, "_parse_cfg: parser construction not found")
    no_interp = any(kw.arg == "interpolation" and isinstance(kw.value, ast.Constant) and kw.value.value is None for kw in used[0].keywords)
    is_raw = (unparse(used[0].func) == "_ConfigParser" and raw) or unparse(used[0].func).endswith("RawConfigParser")
    ctx.check(rule, is_raw or no_interp, "INI reader is a RawConfigParser (or interpolation=None): '%' in a value is literal text",
              "config._ConfigParser enables %-interpolation: '%' in a setup.cfg value (search pattern, message) is not taken literally",
              f"bases {cp.bases}; a pattern such as `%define ver {{version}}` raises InterpolationSyntaxError, `100%% {{version}}` loses a '%'", loc="src/bumpver/config.py",
              witness={"setup.cfg pattern": "progress 100%% v{version}"})
    cutters = [kw for kw in used[0].keywords if kw.arg in ("inline_comment_prefixes", "comment_prefixes", "delimiters", "strict", "empty_lines_in_values") ]
    bad_kw = [kw for kw in cutters if kw.arg == "inline_comment_prefixes" and not (isinstance(kw.value, ast.Constant) and kw.value.value is None)
              or kw.arg == "empty_lines_in_values"]
    init = cp.methods.get("__init__")
    if init is not None:
        for c in ast.walk(init.node):
            if isinstance(c, ast.Call):
                bad_kw += [kw for kw in c.keywords if kw.arg == "inline_comment_prefixes" and not (isinstance(kw.value, ast.Constant) and kw.value.value is None)]
    ctx.check(rule, not bad_kw, "INI reader does not cut values at inline comment markers",
              "config._parse_cfg: setup.cfg values are cut at inline comment markers",
              f"`{unparse(bad_kw[0].value) if bad_kw else ''}`: every value - messages, search patterns - ends at the first ' #' / ' ;', while the same text in a TOML config is kept",
              loc="src/bumpver/config.py", witness={"setup.cfg pattern": '__version__ = "{version}"  # managed by bumpver'})


def run(ctx) -> None:
    prog = ctx.prog
    ctx.rule("R1", "every literal string (chars in 4 contexts, all pairs; thorough: triples) compiles to its own literal text")
    ctx.rule("R2", "each table entry rewrites one character to backslash + that character")
    ctx.rule("R3", "the table is applied completely, once, with no regex flags; backslash first where it is not exempt")
    ctx.rule("R4", "exempted characters are consumed by a dedicated step (bracket look-behind; backslash)")
    ctx.rule("R5", "rendering inverts the escapes and drops anchors")
    ctx.rule("R6", "pattern text from setup.cfg reaches the compiler verbatim (no %-interpolation in the INI reader)")
    # text next to a part stays literal only if the part's regex (often an alternation) is wrapped in its own group
    from checks.c02 import part_occurrences_rule
    part_occurrences_rule(ctx, "R7")
    render_order_rule(ctx, "R5")
    ctx.rule("R8", "a search pattern is refused by the config loader only for an unescaped `[` in first position (every other literal text is a legal pattern)")
    refused_patterns_rule(ctx, "R8")
    ctx.rule("R7", "a part name is substituted only where it does not overlap a part already substituted (text next to a part stays literal); the expression is searched in the unmodified line")

    ctx.rule("R9", "`bumpver grep` searches with the compiler of the pattern language it documents (v2): the text typed is compiled by v2patterns.compile_pattern on every path")
    gfn = prog.function("cli._grep")
    ctx.visit(gfn.fq)
    comp_calls = [c for c in ast.walk(gfn.node) if isinstance(c, ast.Call) and unparse(c.func).split(".")[-1] in ("compile_pattern", "compile_patterns", "_compile_pattern_re")]
    ctx.floor("R9", "pattern compiler calls in cli._grep", len(comp_calls), 1)
    for c in comp_calls:
        ctx.check("R9", unparse(c.func) in ("v2patterns.compile_pattern",), f"cli._grep L{c.lineno}: `{unparse(c.func)}`",
                  "cli._grep: the search pattern is compiled by another compiler than v2patterns.compile_pattern on some path",
                  f"`{unparse(c)[:80]}`: under the legacy compiler `\\[` / `\\]` are a literal backslash + bracket and `{{...}}` is part syntax, so literal text of a v2 pattern "
                  f"(e.g. `{{x\\[0\\]}}`) no longer finds the lines that contain it", loc=gfn.loc(c), witness={"pattern": "{x\\[0\\]}", "line": "{x[0]}"})

    table = prog.const("patterns", "RE_PATTERN_ESCAPES")
    ctx.floor("R2", "escape table entries", len(table), 12)
    for char, esc in table:
        ctx.check("R2", isinstance(char, str) and len(char) == 1 and esc == "\\" + char,
                  f"escape entry {char!r} -> {esc!r} is backslash + character",
                  f"patterns.RE_PATTERN_ESCAPES[{char!r}] is not the exact escape", f"{char!r} -> {esc!r}", loc="src/bumpver/patterns.py")
    keys = [c for c, _ in table]
    ctx.check("R2", len(set(keys)) == len(keys), "escape table has no duplicate characters",
              "patterns.RE_PATTERN_ESCAPES lists a character twice (double escaping)", f"{keys}", loc="src/bumpver/patterns.py")

    engines = {"v2": "v2patterns._compile_pattern_re", "v1": "v1patterns._compile_pattern_re"}
    for eng, fq in engines.items():
        try:
            model = _extract_model(ctx, fq)
        except AnalysisError as ex_model:
            # the compiler function is not a pipeline of table-driven replaces any more: it is evaluated as a whole on every
            # test string instead (re.compile and the part substitution abstracted), the pipeline rules R3 are not applicable
            ctx.observe(f"{fq}: escape pipeline not modelled ({str(ex_model)[:90]}); R1 decided by evaluating the function on every test string, R3 not applicable")
            model = {"fn": prog.function(fq), "eval": True, "prog": prog, "wrapped": None, "flags": None, "table_loops": True, "steps": [], "exempt": set("[]\\") if eng == "v2" else set(),
                     "compile": prog.function(fq).node}
        fn = model["fn"]
        if model.get("wrapped") is not None:
            ctx.bad("R3", f"{fq}: the escaped pattern is edited again before it is compiled",
                    f"`{unparse(model['wrapped'])[:80]}`: the text that was escaped character by character is passed through another function; what is compiled "
                    f"is no longer the literal-preserving expression (e.g. a display formatter that protects blanks only: `#` then starts a comment under re.VERBOSE)",
                    loc=fn.loc(model["wrapped"]), witness={"pattern": "# version: {version}"}, what=f"{fq}: re.compile receives the escaped text itself")
        if model.get("eval"):
            flagged = [c for c in ast.walk(fn.node) if isinstance(c, ast.Call) and unparse(c.func) == "re.compile" and (len(c.args) > 1 or c.keywords)]
            ctx.check("R3", not flagged, f"{fq}: re.compile without flags (no VERBOSE/IGNORECASE)", f"{fq}: pattern compiled with regex flags", unparse(flagged[0]) if flagged else "", loc=fn.loc())
        ctx.check("R3", model.get("eval") or not model["flags"], f"{fq}: re.compile without flags (no VERBOSE/IGNORECASE)",
                  f"{fq}: pattern compiled with regex flags", unparse(model["compile"]), loc=fn.loc(model["compile"]))
        if model["table_loops"]:
            ctx.ok("R3", f"{fq}: escapes by looping over the shared RE_PATTERN_ESCAPES table ({len(model['steps'])} steps after guard folding)")
        else:
            ctx.observe(f"{fq}: escaping is not driven by RE_PATTERN_ESCAPES; decided by the exhaustive string check only ({len(model['steps'])} steps)")
        if model["table_loops"] and "\\" not in model["exempt"]:
            bs = [i for i, (c, _) in enumerate(table) if c == "\\"]
            ctx.check("R3", bs == [0], f"{fq}: backslash entry comes first (no double escaping)",
                      f"{fq}: backslash is escaped after other entries (their backslashes get doubled)", f"index {bs}", loc="src/bumpver/patterns.py")
        expect_exempt = set("[]\\") if eng == "v2" else set()
        ctx.check("R3", model["exempt"] <= expect_exempt, f"{fq}: exempted characters {sorted(model['exempt'])} ⊆ {sorted(expect_exempt)}",
                  f"{fq}: more characters than brackets/backslash are exempt from escaping", f"exempt: {sorted(model['exempt'])}", loc=fn.loc())

        # ----------------------------------------------------------- R1: exhaustive short strings
        UNITS_E = UNITS if eng == "v2" else UNITS_V1
        tests: T.List[T.Tuple[str, ...]] = []
        for u in UNITS_E:
            tests += [(u,), ("a", u), (u, "a"), ("a", u, "b")]
        tests += list(itertools.product(UNITS_E, repeat=2))
        if ctx.tier == "thorough":
            tests += list(itertools.product(UNITS_E, repeat=3))
        seen: T.Set[T.Tuple[str, ...]] = set()
        bad_by_char: T.Dict[str, T.Tuple[str, str]] = {}
        n_tests = 0
        for t in tests:
            if t in seen:
                continue
            seen.add(t)
            n_tests += 1
            text = "".join(t)
            if eng == "v1" and ("{" in text and "}" in text):
                continue            # braces are part syntax in legacy patterns
            regex_text = _escape(model, text)
            dev = _parses_literally(regex_text, _literal_of(t), t[0], t[-1])
            if dev is None:
                continue
            # attribute to the first unit whose single-character embedding already fails, else to the string
            culprit = None
            for u in t:
                for emb in ((u,), ("a", u, "b")):
                    if _parses_literally(_escape(model, "".join(emb)), _literal_of(emb), emb[0], emb[-1]) is not None:
                        culprit = u
                        break
                if culprit:
                    break
            key = culprit if culprit is not None else text
            if key not in bad_by_char or len(text) < len(bad_by_char[key][0]):
                bad_by_char[key] = (text, f"{regex_text!r} {dev}")
        ctx.notes[f"{eng}_strings_tested"] = n_tests
        ctx.floor("R1", f"literal strings tested for {eng}", n_tests, 4000)
        for u in UNITS_E:
            if u in bad_by_char:
                text, dev = bad_by_char[u]
                where = "mid-pattern " if u in "^$" else ""
                ctx.bad("R1", f"{eng}: {where}character {u!r} in a search pattern is not matched literally",
                        f"pattern text {text!r} is compiled to {dev}", loc=fn.loc(), witness={"pattern": text, "regex": _escape(model, text)},
                        what=f"{eng}: character {u!r} compiles to its own literal in every context")
            else:
                ctx.ok("R1", f"{eng}: character {u!r} compiles to its own literal in every context (alone, a·, ·a, a·b, all pairs)")
        for key, (text, dev) in sorted(bad_by_char.items()):
            if key not in UNITS_E:
                ctx.bad("R1", f"{eng}: literal text {key!r} is not matched literally", f"compiled to {dev}", loc=fn.loc(), witness={"pattern": text})

    # ---------------------------------------------------------------- R4 bracket look-behind
    rpp = prog.function("v2patterns._replace_pattern_parts")
    ctx.visit(rpp.fq)
    subs = [c for c in ast.walk(rpp.node) if isinstance(c, ast.Call) and unparse(c.func) in ("re.subn", "re.sub")]
    # decided by evaluating the compiler on patterns with (nested) groups and escaped brackets; the shape of the two rewrite steps
    # is looked at only when that is not possible
    if not bracket_groups_eval(ctx, "R4"):
        ctx.floor("R4", "bracket rewrite steps in _replace_pattern_parts", len(subs), 2)
        want = {"[": "(?:", "]": ")?"}
        found = {}
        for c in subs:
            pat, rep = const_str(c.args[0]), const_str(c.args[1])
            ctx.require(pat is not None and rep is not None, "bracket rewrite uses non-constant regex")
            tree = list(sre_parse.parse(pat))
            ok = len(tree) == 2 and str(tree[0][0]) == "SUBPATTERN" and str(tree[1][0]) == "LITERAL" and chr(tree[1][1]) in "[]"
            if ok:
                br = chr(tree[1][1])
                sub = list(tree[0][1][3])
                alts = sub[0][1][1] if len(sub) == 1 and str(sub[0][0]) == "BRANCH" else None
                kinds = sorted(str(list(a)[0][0]) + ":" + str(list(a)[0][1]) for a in alts) if alts else []
                ok = kinds == ["AT:AT_BEGINNING", "NOT_LITERAL:92"] and rep == "\\1" + want[br]
                found[br] = ok
                ctx.check("R4", ok, f"_replace_pattern_parts: unescaped {br!r} (not preceded by backslash) -> {want[br]!r}",
                          f"v2patterns._replace_pattern_parts: rewrite of {br!r} does not respect the backslash escape", f"{pat!r} -> {rep!r}", loc=rpp.loc(c))
            else:
                ctx.bad("R4", "v2patterns._replace_pattern_parts: bracket rewrite regex shape changed", f"{pat!r}", loc=rpp.loc(c))
        ctx.check("R4", set(found) == {"[", "]"}, "both brackets have a rewrite step", "v2patterns._replace_pattern_parts: a bracket has no rewrite step",
                  f"{sorted(found)}", loc=rpp.loc())

    # ---------------------------------------------------------------- R5 rendering
    fs = prog.function("v2version._format_segment")
    ctx.visit(fs.fq)
    reps = {}
    for c in ast.walk(fs.node):
        if isinstance(c, ast.Call) and isinstance(c.func, ast.Attribute) and c.func.attr == "replace" and len(c.args) == 2:
            a0, a1 = const_str(c.args[0]), const_str(c.args[1])
            if a0 is not None and a1 is not None:
                reps[a0] = a1
    for src, dst in (("\\[", "["), ("\\]", "]"), ("^", ""), ("$", "")):
        ctx.check("R5", reps.get(src) == dst, f"_format_segment renders {src!r} as {dst!r}",
                  f"v2version._format_segment: {src!r} is not rendered as {dst!r}", f"replacements: {reps}", loc=fs.loc())

    # renderer and recogniser treat the anchors alike: a character that the renderer drops as an anchor must not be turned into a
    # literal by the escape table, otherwise the text rendered for an anchored pattern is not found by that pattern
    dropped = {src for src, dst in reps.items() if dst == "" and len(src) == 1}
    esc_tab = prog.const("patterns", "RE_PATTERN_ESCAPES")
    clash = sorted(dropped & {c_ for c_, _e in esc_tab})
    ctx.check("R5", not clash, f"no anchor character dropped by the renderer ({sorted(dropped)}) is escaped to a literal by RE_PATTERN_ESCAPES",
              "patterns.RE_PATTERN_ESCAPES escapes an anchor that the renderer drops",
              f"{clash}: the README's own file patterns (`version=\"{{version}}\",$`) then demand a literal `$` in the file, the rendered text has none: update ends with 'No match for pattern'",
              loc="src/bumpver/patterns.py", witness={"pattern": 'version="{version}",$'})

    # ---------------------------------------------------------------- R6
    ini_verbatim_rule(ctx, "R6")

    # TOML: the strings of file_patterns are exact (the format has its own quoting), so nothing between toml.load and
    # the pattern compiler may edit them
    effects = ctx.effects
    toml_path = effects.reachable_functions(["config._parse_toml", "config._parse_config"])
    ini_only = effects.reachable_functions(["config._parse_cfg"]) - toml_path
    n_fn = 0
    for fq in sorted(toml_path):
        if not fq.startswith("config."):
            continue
        fn = prog.function(fq)
        hits = _pattern_text_edits(fn)
        if hits is None:
            continue
        n_fn += 1
        ctx.visit(fq)
        for call, why in hits:
            ctx.bad("R6", f"{fq}: file_patterns text of a TOML config is edited before it is compiled (`{unparse(call)[:60]}`)",
                    f"{why}; blanks or other literal characters at the edge of a pattern no longer match themselves", loc=fn.loc(call),
                    witness={"pyproject.toml pattern": '"  version = {version}"'}, what=f"{fq}: pattern strings pass through unedited")
        if not hits:
            ctx.ok("R6", f"{fq}: pattern strings pass through unedited")
    ctx.floor("R6", "functions on the TOML path that handle file_patterns", n_fn, 3)
    ctx.observe(f"INI-only functions (may normalise the multi-line INI value): {sorted(ini_only)}")

    # INI: a pattern line is stripped of surrounding white space and nothing else
    fpf = prog.function("config._parse_cfg_file_patterns")
    ctx.visit(fpf.fq)
    ys = [n for n in walk_no_nested(fpf.node) if isinstance(n, ast.Yield) and isinstance(n.value, ast.Tuple) and len(n.value.elts) == 2]
    for y in ys:
        pe = y.value.elts[1]
        lc = shapes.loop_as_listcomp(fpf, pe.id, prog) if isinstance(pe, ast.Name) else None
        expr = shapes.inline(fpf, lc if lc is not None else pe, prog)
        comps = [n for n in ast.walk(expr) if isinstance(n, (ast.ListComp, ast.GeneratorExp))]
        elts = [c.elt for c in comps]
        for e in elts:
            if isinstance(e, ast.Name):
                continue
            plain_strip = isinstance(e, ast.Call) and isinstance(e.func, ast.Attribute) and e.func.attr == "strip" and not e.args and isinstance(e.func.value, ast.Name)
            if plain_strip:
                ctx.ok("R6", f"_parse_cfg_file_patterns: a pattern line is `{unparse(e)}`")
                continue
            bad_edit = None
            if isinstance(e, ast.Call):
                t = prog.resolve_call(fpf, e, count=False)
                if t.kind == "func" and t.fn is not None:
                    for x in ast.walk(t.fn.node):
                        if isinstance(x, ast.Subscript) and isinstance(x.slice, ast.Slice) and isinstance(x.ctx, ast.Load):
                            bad_edit = x
                        elif isinstance(x, ast.Call) and isinstance(x.func, ast.Attribute) and ((x.func.attr in ("strip", "lstrip", "rstrip") and x.args) or x.func.attr in STR_EDITS - {"strip", "splitlines", "split"}):
                            bad_edit = x
            ctx.check("R6", False if bad_edit is not None or not isinstance(e, ast.Call) else True, f"_parse_cfg_file_patterns: pattern line `{unparse(e)[:50]}` only strips white space",
                      "config._parse_cfg_file_patterns: a setup.cfg pattern line is edited beyond stripping white space",
                      f"`{unparse(bad_edit if bad_edit is not None else e)[:80]}`: characters of the pattern's literal text (e.g. a quote at both ends of `\"version\": \"{{version}}\"`) are removed, the "
                      f"pattern then also matches other lines", loc=fpf.loc(e), witness={"setup.cfg pattern": '"version": "{version}"'})

    # ---------------------------------------------------------------- R7
    # (a) overlap guard of the part substitution, decided over the order types of (start, end, last_start)
    rpp7 = prog.function("v2patterns._replace_pattern_parts")
    g7 = ctx.cfgs.get(rpp7.fq)
    from sa.pathcond import PathCond as _PC7
    from sa.boolfn import BF as _BF7
    pc7 = _PC7(g7)
    splices = [n for n in g7.nodes if n.kind == "stmt" and isinstance(n.ast, ast.Assign) and n.id in g7.reachable() and isinstance(n.ast.value, ast.BinOp)
               and sum(1 for x in ast.walk(n.ast.value) if isinstance(x, ast.Subscript) and isinstance(x.slice, ast.Slice)) == 2]
    ctx.floor("R7", "splice statements in _replace_pattern_parts", len(splices), 1)
    import itertools as _it
    import operator as _op
    _OPS = {"<": _op.lt, "<=": _op.le, ">": _op.gt, ">=": _op.ge, "==": _op.eq, "!=": _op.ne}
    for n in splices:
        sl = [x for x in ast.walk(n.ast.value) if isinstance(x, ast.Subscript) and isinstance(x.slice, ast.Slice)]
        start_v = next((unparse(x.slice.upper) for x in sl if x.slice.lower is None and x.slice.upper is not None), None)
        end_v = next((unparse(x.slice.lower) for x in sl if x.slice.upper is None and x.slice.lower is not None), None)
        lasts = [unparse(t_) for m_ in g7.nodes if m_.kind == "stmt" and isinstance(m_.ast, ast.Assign) and unparse(m_.ast.value) == start_v and m_.id in g7.reachable(n.id) for t_ in m_.ast.targets]
        ctx.require(start_v and end_v and len(set(lasts)) == 1, "_replace_pattern_parts: splice bounds / last-start variable not identified")
        last_v = lasts[0]
        r = pc7.reach(n.id).drop_unused()
        names = {start_v: "s", end_v: "e", last_v: "L"}

        def _cls(leaf: ast.AST) -> T.Tuple[str, bool]:
            cs = shapes.compare_shape(leaf)
            if cs is None or unparse(cs[1]) not in names or unparse(cs[2]) not in names:
                raise AnalysisError(f"C07/R7: splice guard leaf not a comparison of the index variables: {unparse(leaf)}")
            return f"{names[unparse(cs[1])]} {cs[0]} {names[unparse(cs[2])]}", True
        def _is_idx_atom(a_: str) -> bool:
            cs_ = shapes.compare_shape(shapes.inline(rpp7, ast.parse(a_, mode="eval").body, prog, consts=False))
            return cs_ is not None and unparse(cs_[1]) in names and unparse(cs_[2]) in names
        for a_ in list(r.atoms):
            if not _is_idx_atom(a_):
                r = r.exists(a_)          # conditions of earlier statements (the bracket rewrite loop) do not concern the guard
        r = r.drop_unused()
        gbf = shapes.semantic_bf(r, rpp7, _cls, prog)
        wrong = None
        for s_, e_, L_ in _it.product(range(5), repeat=3):
            if s_ >= e_:
                continue
            f = gbf
            for a in list(gbf.atoms):
                l2, o2, r2 = a.split(" ")
                env = {"s": s_, "e": e_, "L": L_}
                f = f.restrict(a, _OPS[o2](env[l2], env[r2]))
            if f.drop_unused().is_true() != (e_ <= L_) and wrong is None:
                wrong = {"start": s_, "end": e_, "last_start": L_, "spliced": f.drop_unused().is_true()}
        ctx.check("R7", wrong is None, "_replace_pattern_parts: a part is substituted iff it ends at or before the start of the part substituted last (no overlap)",
                  "v2patterns._replace_pattern_parts: a part name that overlaps an already substituted part is substituted too",
                  f"guard {gbf.to_dnf()} differs from `end <= last_start` for {wrong}: a literal character in front of a part that together with the part's first letters spells another "
                  f"part name (`0` + `MAJOR` -> `0M`) is substituted into the already replaced text; the pattern no longer compiles or matches other text" if wrong else "",
                  loc=rpp7.loc(n.ast), witness={"pattern": "rev0MAJOR.MINOR"})
    # (b) the expression is searched in the line as it is
    lsf = prog.function("parse._iter_for_pattern") if prog.has_function("parse._iter_for_pattern") else prog.function("parse.iter_matches")
    ctx.visit(lsf.fq)
    srch = [c for c in ast.walk(lsf.node) if isinstance(c, ast.Call) and isinstance(c.func, ast.Attribute) and c.func.attr in ("search", "finditer", "match") and unparse(c.func.value).endswith(".regexp")]
    ctx.floor("R7", "regexp search calls of the line search", len(srch), 1)
    from checks.c03 import line_search_fold
    folded7 = line_search_fold(ctx, lsf) if lsf.name == "_iter_for_pattern" else None
    if folded7 is not None:
        # decided by evaluating the search loop on abstract lines: `search` receives every line unchanged
        ctx.check("R7", not folded7 and all(c.func.attr == "search" for c in srch), f"{lsf.name}: the expression is searched (re.search) in every unmodified line",
                  f"parse.{lsf.name}: the pattern is not searched in the line as it is", "; ".join(folded7[:2]), loc=lsf.loc(), witness={"pattern": "Release: {version}  "})
        srch = []
    line_vars = {unparse(l_.target.elts[1]) for l_ in walk_no_nested(lsf.node) if isinstance(l_, ast.For) and isinstance(l_.target, ast.Tuple) and len(l_.target.elts) == 2 and unparse(l_.iter).startswith("enumerate(")}
    for c in srch:
        a0 = shapes.inline(lsf, c.args[0], prog) if c.args else None
        ctx.check("R7", a0 is not None and isinstance(a0, ast.Name) and a0.id in line_vars and c.func.attr == "search", f"{lsf.name}: the expression is searched in the unmodified line `{unparse(a0) if a0 is not None else None}`",
                  f"parse.{lsf.name}: the pattern is not searched in the line as it is",
                  f"`{unparse(c)}`: e.g. with the line right-stripped, a pattern whose literal text ends in blanks no longer matches its own line", loc=lsf.loc(c), witness={"pattern": "Release: {version}  "})


def refused_patterns_rule(ctx, rule: str) -> None:
    """config._compile_v2_file_patterns raises for a raw pattern exactly when it starts with `[`: the guard of each raise,
    folded for patterns that start / end / neither / both with `[` (and the escaped `\\[` at the end)."""
    from sa.model import CannotFold
    prog = ctx.prog
    fn = prog.function("config._compile_v2_file_patterns")
    ctx.visit(fn.fq)
    guards = [n for n in ast.walk(fn.node) if isinstance(n, ast.If) and any(isinstance(b, ast.Raise) for b in n.body)
              and any(isinstance(x, ast.Name) and x.id == "raw_pattern" for x in ast.walk(n.test))]
    ctx.floor(rule, "pattern-refusing guards in _compile_v2_file_patterns", len(guards), 1)
    samples = {"[opt] {version}": True, "release {version} \\[": False, "{version}": False, "[x] \\[": True, "a [b] c": False, "\\[literal\\] {version}": False}
    for g in guards:
        wrong = []
        try:
            for pat, want in samples.items():
                got = bool(prog.fold(fn.module, g.test, {"raw_pattern": pat}))
                if got != want:
                    wrong.append(f"{pat!r} is {'refused' if got else 'accepted'}")
        except CannotFold:
            ctx.observe(f"_compile_v2_file_patterns: guard `{unparse(g.test)[:60]}` not foldable")
            continue
        ctx.check(rule, not wrong, f"_compile_v2_file_patterns: `{unparse(g.test)}` refuses exactly the patterns that start with `[`",
                  "config._compile_v2_file_patterns: a legal search pattern is refused (or a leading `[` accepted)", "; ".join(wrong[:3]), loc=fn.loc(g), witness={"pattern": "releases {version} \\["})


def render_order_rule(ctx, rule: str) -> None:
    """The renderer replaces part names by sequential str.replace, longest names first; among names of equal length the order is
    that of PATTERN_PART_FIELDS (unpadded before zero-padded), which is what keeps a literal `0` in front of `YY` / `MM` literal -
    as the recogniser reads it.  _format_part_values is evaluated with every field set and the order of its result compared."""
    import types
    from sa.model import Abstract, CannotFold, EvalError
    prog = ctx.prog
    fn = prog.function("v2version._format_part_values")
    ctx.visit(fn.fq)
    fields_tab = prog.const("v2patterns", "PATTERN_PART_FIELDS")
    fmt_node = prog.const_node("v2patterns", "PART_FORMATS")
    if not isinstance(fmt_node, ast.Dict):
        ctx.observe("v2patterns.PART_FORMATS is not a dict display; render order not evaluated")
        return
    fmt_keys = [k.value for k in fmt_node.keys if isinstance(k, ast.Constant)]

    class VInfo(Abstract):
        def _asdict(self) -> T.Dict[str, T.Any]:
            return {f: 1 for f in set(fields_tab.values())}
    stub_mod = types.SimpleNamespace(PATTERN_PART_FIELDS=dict(fields_tab), PART_FORMATS={k: (lambda v, k=k: f"<{k}>") for k in fmt_keys})
    try:
        try:
            got, _ys = prog.run_body(fn, {fn.params[0]: VInfo(), "v2patterns": stub_mod, "__strict__": True})
        except EvalError as ex:
            got = f"raises: {ex}"
    except (CannotFold, TypeError, AttributeError, KeyError, ValueError, IndexError) as ex:
        ctx.observe(f"v2version._format_part_values not evaluated ({type(ex).__name__}: {str(ex)[:80]})")
        return
    want = sorted(fields_tab, key=lambda p_: -len(p_))
    names = [g[0] for g in got] if isinstance(got, list) else got
    first_bad = next(((a, b) for a, b in zip(names, want) if a != b), None) if isinstance(names, list) else None
    ctx.check(rule, names == want, "_format_part_values: parts are substituted longest first, equal lengths in PATTERN_PART_FIELDS order (evaluated)",
              "v2version._format_part_values: the order in which part names are replaced in a pattern changed",
              (f"`{first_bad[0]}` is now replaced before `{first_bad[1]}`: " if first_bad else f"{str(names)[:80]}: ") + "a literal `0` directly in front of an unpadded part (`copyright 20YY`) is "
              "swallowed by the zero-padded part on rendering, while the recogniser still reads it as literal text", loc=fn.loc(), witness={"pattern": "copyright 20YY"})
