"""C01 - a successful bump yields a valid, strictly greater version."""
from __future__ import annotations

import ast
import typing as T

from sa import shapes
from sa.boolfn import BF
from sa.model import AnalysisError, call_arg, const_str, unparse, walk_no_nested
from sa.pathcond import PathCond

TECHNIQUE = "gate dominance by edge cutting on the CFG, exit-code and effect summaries, path-condition extraction inside the gate, full-match idiom check"
EXPLANATION = (
    "bumpver does not trust its increment logic: whatever incr / --set-version produced passes one gate "
    "(cli._is_valid_version).  The check decides on every path of `test` and `update` that (R1) the announcement, every "
    "file-write / VCS / hook call and every exit-0 outcome is dominated by the true outcome of the gate, evaluated on the "
    "same new/old version values that are announced and passed on, with old_version read after the VCS tag lookup; (R2) "
    "every other process exit is a constant non-zero status and a missing new version cannot reach the gate; (R3) the gate "
    "returns True only after a successful parse with the pattern's engine, the strict `new > old` comparison under "
    "version.parse_version and, when requested, the uniqueness test; (R4) parse_version_info of both engines accepts only "
    "a full-length match."
)
LEVEL_NOTE = ("The comparator's order laws (C16/R1-R4) and the choice of the start version (C09/R1-R2) are imported as prerequisite rules R5/R6; agreement of the "
              "comparator with a PEP 440 reference on all strings is not decided. Values computed by incr are irrelevant to C01 because of the gate.")

GATE = "cli._is_valid_version"
ROOTS = ("cli.test", "cli.update")


def _announce_sites(ctx, fn) -> T.List[ast.Call]:
    out = []
    for s in ctx.effects.sites[fn.fq]:
        if s.effect in ("ECHO", "LOG") and isinstance(s.node, ast.Call) and s.node.args:
            # what the call may print: its argument, or the lines collected in a list that it walks
            for a in shapes.printed_texts(fn, s.node):
                head = None
                if isinstance(a, ast.JoinedStr) and a.values and isinstance(a.values[0], ast.Constant):
                    head = a.values[0].value
                elif isinstance(a, ast.Constant) and isinstance(a.value, str):
                    head = a.value
                if head is not None and isinstance(head, str) and head.strip().lower().startswith(("new version", "pep440")):
                    out.append(s.node)
                    break
    return out


def _gate_true_blockers(ctx, fn, cfg, call: ast.Call) -> T.Tuple[T.List[T.Tuple[int, int, T.Any]], T.List[int]]:
    """Edges that represent 'gate returned True', and the test nodes carrying them."""
    nid = cfg.node_containing(call)
    ctx.require(nid is not None, f"gate call not in CFG of {fn.fq}")
    n = cfg.nodes[nid]
    if n.kind == "test":
        ctx.require(n.ast is call, f"{fn.fq}: gate call is wrapped in an expression `{n.text()}` (shape not enumerated)")
        return cfg.edges_of_test(nid, "T"), [nid]
    if n.kind == "stmt" and isinstance(n.ast, (ast.Assign, ast.AnnAssign)):
        tgt = n.ast.targets[0] if isinstance(n.ast, ast.Assign) else n.ast.target
        ctx.require(isinstance(tgt, ast.Name) and n.ast.value is call, f"{fn.fq}: gate result binding shape not enumerated")
        ctx.require(len(shapes.local_defs(fn, tgt.id)) == 1, f"{fn.fq}: gate result variable `{tgt.id}` is reassigned")
        edges, tests = [], []
        for m in cfg.nodes:
            if m.kind == "test" and isinstance(m.ast, ast.Name) and m.ast.id == tgt.id:
                edges += cfg.edges_of_test(m.id, "T")
                tests.append(m.id)
        ctx.require(tests, f"{fn.fq}: gate result `{tgt.id}` is never tested")
        return edges, tests
    raise AnalysisError(f"C01/R1: gate call in {fn.fq} is neither a branch test nor a bound result: `{n.text()}`")


def run(ctx) -> None:
    prog, cfgs, effects = ctx.prog, ctx.cfgs, ctx.effects
    ctx.rule("R1", "announce / write / VCS / hook sites and exit-0 outcomes are dominated by gate-true; same values; old_version read after the tag lookup")
    ctx.rule("R2", "all other exits are constant non-zero; a None new version never reaches the gate; `test` has no write/VCS-mutation/hook effect")
    ctx.rule("R3", "gate content: parse with the pattern's engine, strict > under parse_version, uniqueness when requested")
    ctx.rule("R4", "parse_version_info (v2, v1) accepts only a full-length match")
    ctx.rule("R5", "prerequisite: the comparator's order laws and PEP 440 segment rules (C16/R1-R4)")
    ctx.rule("R6", "prerequisite: the start version is the config value or the newest tag in scope (C09/R1-R2)")
    from sa.report import run_prerequisite
    run_prerequisite(ctx, "C16", ("R1", "R2", "R3", "R4", "R7", "R8", "R9"), "R5")
    # 'the version it started from (the config value or the newest VCS tag, per tag scope)': how that version is chosen
    # is C09's subject; its scope/selection rules are a precondition here (a failed listing must not read as 'no tags',
    # the default-scope comparison and the newest-tag selection are made under parse_version)
    run_prerequisite(ctx, "C09", ("R1", "R2"), "R6")
    ctx.rule("R7", "prerequisite: 'in every other case no project file is changed' - no file is written before every configured file was validated (C06/R1)")
    run_prerequisite(ctx, "C06", ("R1",), "R7")
    gate = prog.function(GATE)
    n_gate = n_ann = n_eff = 0
    for root in ROOTS:
        fn = prog.function(root)
        ctx.visit(root, GATE)
        cfg = cfgs.get(root)
        gcalls = shapes.find_calls(prog, fn, GATE)
        if not gcalls:
            ctx.bad("R1", f"{root}: the version gate is not called", f"{root} never calls {GATE}: any computed or user-supplied version is accepted",
                    loc=fn.loc(), what=f"{root}: gate called")
            n_gate += 1          # the instance was examined (and found missing)
            n_ann += len(_announce_sites(ctx, fn))
            continue
        n_gate += len(gcalls)
        true_edges: T.List[T.Tuple[int, int, T.Any]] = []
        gate_tests: T.List[int] = []
        for c in gcalls:
            e, t = _gate_true_blockers(ctx, fn, cfg, c)
            true_edges += e
            gate_tests += t
        reach_wo = cfg.reachable(blocked_edges=true_edges)          # everything reachable without ever taking gate-true
        neff = shapes.node_effects_lazy(prog, effects, cfg, cfgs.types(root))
        # protected sites
        ann = _announce_sites(ctx, fn)
        n_ann += len(ann)
        for a in ann:
            nid = cfg.node_containing(a)
            ctx.check("R1", nid not in reach_wo, f"{root}: announcement `{unparse(a)[:50]}` only after gate-true",
                      f"{root}: the new version is announced without passing the gate",
                      f"`{unparse(a)[:70]}` (L{a.lineno}) is reachable on a path that never takes the true outcome of {GATE}", loc=fn.loc(a))
        for nid, effs in sorted(neff.items()):
            prot = sorted(k for k in effs if k == "FS_WRITE" or k.startswith("VCS_MUTATE") or k == "HOOK")
            if not prot:
                continue
            n_eff += 1
            ctx.check("R1", nid not in reach_wo, f"{root}: `{cfg.nodes[nid].text()[:50]}` ({', '.join(prot)[:40]}) only after gate-true",
                      f"{root}: files/VCS can be changed without passing the version gate",
                      f"`{cfg.nodes[nid].text()[:70]}` (L{cfg.nodes[nid].lineno}) has effects {prot} and is reachable without gate-true",
                      loc=fn.loc(cfg.nodes[nid].ast), path=effs[prot[0]])
        ctx.check("R1", cfg.exit not in reach_wo, f"{root}: normal completion (exit 0) only after gate-true",
                  f"{root}: exits 0 without a valid, greater version",
                  "the function can complete normally on a path that never takes the true outcome of the gate", loc=fn.loc())
        for sid in cfg.sysexits:
            code = cfg.nodes[sid].extra.get("code")
            if sid in cfg.reachable() and code in (0, None, False):
                ctx.check("R1", sid not in reach_wo, f"{root}: sys.exit({code}) at L{cfg.nodes[sid].lineno} only after gate-true",
                          f"{root}: exits 0 without a valid, greater version", f"sys.exit({code}) at L{cfg.nodes[sid].lineno} reachable without gate-true",
                          loc=fn.loc(cfg.nodes[sid].stmt))
        # same values: the gate's new/old arguments are plain names, not re-bound after the gate
        for c in gcalls:
            a_new, a_old, a_pat = call_arg(c, gate, "new_version"), call_arg(c, gate, "old_version"), call_arg(c, gate, "raw_pattern")
            ctx.require(a_new is not None and a_old is not None and a_pat is not None, f"{root}: gate call lacks arguments")
            ctx.check("R1", isinstance(a_new, ast.Name) and isinstance(a_old, ast.Name),
                      f"{root}: gate receives the plain variables `{unparse(a_new)}`, `{unparse(a_old)}`",
                      f"{root}: gate is evaluated on a derived expression, not on the announced value",
                      f"`{unparse(c)[:80]}`", loc=fn.loc(c))
            after: T.Set[int] = set()
            for (s, d, _l) in true_edges:
                after |= cfg.reachable(d)
            for nm in (a_new, a_old):
                if not isinstance(nm, ast.Name):
                    continue
                redefs = []
                for st, _v in shapes.local_defs(fn, nm.id):
                    for nid in cfg.nodes_of(st):
                        if nid in after:
                            redefs.append(st)
                ctx.check("R1", not redefs, f"{root}: `{nm.id}` is not re-bound after the gate",
                          f"{root}: `{nm.id}` is changed after it passed the gate",
                          f"assignment(s) at L{[r.lineno for r in redefs]} follow the gate", loc=fn.loc(redefs[0]) if redefs else fn.loc())
            # announced / passed-on value is that same variable
            for a in ann:
                names = {x.id for x in ast.walk(a) if isinstance(x, ast.Name)}
                head = a.args[0].values[0].value if isinstance(a.args[0], ast.JoinedStr) else ""
                if head.lower().startswith("new version"):
                    ctx.check("R1", isinstance(a_new, ast.Name) and a_new.id in names, f"{root}: the announced value is the gated `{unparse(a_new)}`",
                              f"{root}: the announced version is not the value that passed the gate", f"`{unparse(a)[:70]}`", loc=fn.loc(a))
            # pattern argument
            want_pat = "raw_pattern" if root == "cli.test" else "cfg.version_pattern"
            ctx.check("R1", unparse(shapes.resolve_alias(fn, a_pat)) in (want_pat, "pattern"), f"{root}: gate checks against the configured pattern `{want_pat}`",
                      f"{root}: gate is evaluated against a different pattern", f"`{unparse(a_pat)}`", loc=fn.loc(c))
        # increment wiring: incr_dispatch(old_version, raw_pattern=<pattern>) -> new_version
        inc = shapes.find_calls(prog, fn, "cli.incr_dispatch")
        ctx.require(len(inc) == 1, f"{root}: expected one incr_dispatch call")
        ifn = prog.function("cli.incr_dispatch")
        ov = call_arg(inc[0], ifn, "old_version")
        ctx.check("R1", ov is not None and all(unparse(ov) == unparse(call_arg(c, gate, "old_version")) for c in gcalls),
                  f"{root}: incr_dispatch and the gate use the same old version `{unparse(ov) if ov is not None else None}`",
                  f"{root}: the increment starts from a different version than the gate compares with", unparse(inc[0])[:80], loc=fn.loc(inc[0]))
        # --set-version: the value that goes to the gate is the given version exactly when one was given, the increment otherwise
        from sa.pathcond import assign_facts
        sv_atom = "set_version is None"
        pc_sv = PathCond(cfg, extra_atoms=[sv_atom], only=lambda t_: t_ == sv_atom, max_atoms=2)
        gated = a_new.id if isinstance(a_new, ast.Name) else "new_version"
        facts = [(v_, c_.project([sv_atom])) for _t, v_, c_, _s in assign_facts(cfg, pc_sv, [gated])]
        given = [c_ for v_, c_ in facts if isinstance(v_, ast.Name) and v_.id == "set_version"]
        incd = [c_ for v_, c_ in facts if isinstance(v_, ast.Call) and unparse(v_.func) == "incr_dispatch"]
        ok_sv = len(given) == 1 and len(incd) == 1 and given[0].equiv(~BF.var(sv_atom)) and incd[0].equiv(BF.var(sv_atom))
        ctx.check("R1", ok_sv, f"{root}: `{gated}` is --set-version exactly when it was given, the increment otherwise",
                  f"{root}: --set-version is not the version that is validated and announced",
                  f"`{gated} = set_version` when {[c_.to_dnf() for c_ in given]}, `{gated} = incr_dispatch(...)` when {[c_.to_dnf() for c_ in incd]}: a given version (also an invalid or "
                  f"smaller one, which must end in a non-zero exit) is ignored", loc=fn.loc(), witness={"command": "bumpver test 2020.1001 YYYY.BUILD --set-version 2019.1"})
        if root == "cli.update":
            od = shapes.single_def(fn, "old_version")
            ctx.check("R1", od is not None and unparse(od) == "cfg.current_version", "update: old_version = cfg.current_version (single definition)",
                      "cli.update: old_version is not the resolved current version", f"{unparse(od) if od is not None else None}", loc=fn.loc())
            ucalls = shapes.find_calls(prog, fn, "cli._update_cfg_from_vcs")
            ctx.floor("R1", "tag lookups in update", len(ucalls), 1)
            unodes = [cfg.node_containing(c) for c in ucalls]
            odn = [nid for st, _v in shapes.local_defs(fn, "old_version") for nid in cfg.nodes_of(st)]
            ctx.require(odn, "old_version definition not in CFG")
            pc_cut = PathCond(cfg, blocked_nodes=unodes)
            r = pc_cut.reach(odn[0])
            ctx.require("ignore_vcs_tag" in pc_cut.atoms, "update no longer branches on ignore_vcs_tag")
            ctx.check("R1", r.implies(BF.var("ignore_vcs_tag")),
                      "update: old_version is read after _update_cfg_from_vcs unless --ignore-vcs-tag",
                      "cli.update: the starting version is read before / without the VCS tag lookup",
                      f"without the lookup, old_version is defined when {r.to_dnf()}", loc=fn.loc())
            # the lookup must use the effective tag scope: --tag-scope is merged by _parse_vcs_options first
            pvo = shapes.find_calls(prog, fn, "cli._parse_vcs_options")
            if pvo:
                pn = cfg.node_containing(pvo[0])
                for u in unodes:
                    ctx.check("R1", u not in cfg.reachable(blocked_nodes=[pn]), "update: the tag lookup runs after the CLI options (--tag-scope) were merged into cfg",
                              "cli.update: the version update starts from a tag chosen with the config file's tag scope, not the effective one",
                              "_update_cfg_from_vcs is reachable without passing _parse_vcs_options", loc=fn.loc(cfg.nodes[u].ast))
            for u in unodes:
                ctx.check("R1", u not in cfg.reachable(odn[0]), "update: no tag lookup after old_version was read",
                          "cli.update: cfg is updated from VCS tags after old_version was taken", "", loc=fn.loc())
        # ------------------------------------------------------------ R2
        summ = effects.effects_of(root)
        for eff, chain in sorted(summ.items()):
            if eff.startswith("EXIT:"):
                code = eff.split(":", 1)[1]
                if code in ("0", "None", "False"):
                    # exit 0 inside callees before the gate would bypass it
                    ctx.bad("R2", f"{root}: a callee can end the process with status {code}", "exit-0 outside the gated path", loc=chain[-1], path=chain)
                elif code == "?":
                    raise AnalysisError(f"C01/R2: non-constant exit status reachable from {root}: {' > '.join(chain)}")
                else:
                    ctx.ok("R2", f"{root}: failure exit with constant status {code} ({chain[-1]})")
        pc = PathCond(cfg)
        nv_atom = None
        for c in gcalls:
            a_new = call_arg(c, gate, "new_version")
            if isinstance(a_new, ast.Name) and f"{a_new.id} is None" in pc.atoms:
                nv_atom = f"{a_new.id} is None"
        if nv_atom is None:
            ctx.bad("R2", f"{root}: a missing new version (None) is not rejected before the gate",
                    "no `new_version is None` test guards the gate", loc=fn.loc(), what=f"{root}: None new version rejected")
        else:
            for t in gate_tests:
                r = pc.reach(t)
                ctx.check("R2", r.implies(~BF.var(nv_atom)), f"{root}: `{nv_atom}` never reaches the gate",
                          f"{root}: a missing new version (None) can reach the gate", f"gate reached when {r.to_dnf()}", loc=fn.loc())
    ctx.floor("R1", "gate calls in test+update", n_gate, 2)
    ctx.floor("R1", "announcement sites", n_ann, 2)
    ctx.floor("R1", "effect-carrying call nodes behind the gate", n_eff, 1)
    tsum = effects.effects_of("cli.test")
    bad = sorted(k for k in tsum if k == "FS_WRITE" or k.startswith("VCS_MUTATE") or k == "HOOK")
    ctx.check("R2", not bad, "`test` has no file-write / VCS-mutation / hook effect at all", "cli.test: can change files or the repository",
              f"{bad}", loc=prog.function("cli.test").loc(), path=tsum[bad[0]] if bad else None)

    # ---------------------------------------------------------------- R3
    gcfg = cfgs.get(GATE)
    gpc = PathCond(gcfg)
    p_pat, p_old, p_new = gate.params[0], gate.params[1], gate.params[2]
    trues = [n.id for n in gcfg.nodes if n.kind == "stmt" and isinstance(n.ast, ast.Return) and isinstance(n.ast.value, ast.Constant) and n.ast.value.value is True]
    other_rets = [n for n in gcfg.nodes if n.kind == "stmt" and isinstance(n.ast, ast.Return) and n.id not in trues]
    ctx.floor("R3", "`return True` sites in the gate", len(trues), 1)
    for n in other_rets:
        ctx.check("R3", isinstance(n.ast.value, ast.Constant) and n.ast.value.value is False, f"gate: L{n.lineno} returns the constant False",
                  f"{GATE}: a rejection path returns a non-False value", unparse(n.ast), loc=gate.loc(n.ast))
    ctx.check("R3", not gcfg.nodes[gcfg.exit].extra.get("implicit_from"), "gate: no implicit fall-off return",
              f"{GATE}: can fall off the end (returns None)", "", loc=gate.loc())
    direct_parse = all(len(shapes.find_calls(prog, gate, f"{e_}.parse_version_info")) == 1 for e_ in ("v2version", "v1version"))
    iv_calls = [c_ for c_ in ast.walk(gate.node) if isinstance(c_, ast.Call) and isinstance(c_.func, ast.Attribute) and c_.func.attr == "is_valid"]
    if not direct_parse and len(iv_calls) == 1:
        # the gate validates through <engine>.is_valid(new_version, pattern): the engine must be the pattern's, the result must
        # guard `return True`, and is_valid itself must validate by a full parse (C09/R3-R4)
        ivc = iv_calls[0]
        ctx.check("R3", [unparse(a_) for a_ in ivc.args] == [p_new, p_pat], f"gate: is_valid({p_new}, {p_pat})",
                  f"{GATE}: the new version is not validated against the given pattern", unparse(ivc), loc=gate.loc(ivc))
        eng_e = shapes.inline(gate, ivc.func.value, prog)
        eng_ok = isinstance(eng_e, ast.IfExp) and unparse(eng_e.body) == "v2version" and unparse(eng_e.orelse) == "v1version" and \
            unparse(shapes.inline(gate, eng_e.test, prog)) in ("'{' not in raw_pattern and '}' not in raw_pattern", f"'{{' not in {p_pat} and '}}' not in {p_pat}", f"not ('{{' in {p_pat} or '}}' in {p_pat})")
        ctx.check("R3", eng_ok, "gate: validity is asked of the pattern's own engine", f"{GATE}: engine selection for the validity test is wrong", unparse(eng_e)[:90], loc=gate.loc(ivc))
        iv_atom = [a_ for a_ in gpc.atoms if a_.replace(" ", "") == unparse(ivc).replace(" ", "")]
        for t in trues:
            r_ = gpc.reach(t)
            ctx.check("R3", bool(iv_atom) and r_.implies(BF.var(iv_atom[0])), "gate: `return True` only when is_valid(...) held",
                      f"{GATE}: returns True although the new version is not valid for the pattern", r_.to_dnf(), loc=gate.loc(gcfg.nodes[t].ast))
        from sa.report import run_prerequisite as _rp
        _rp(ctx, "C09", ("R3", "R4"), "R3")
    elif not direct_parse and sorted(unparse(c_.func) for c_ in iv_calls) == ["v1version.is_valid", "v2version.is_valid"]:
        # the same, with the engine chosen by a branch: <v2version|v1version>.is_valid(new_version, pattern), one call per engine
        isnew = [a for a in gpc.atoms if a == "is_new_pattern"]
        ctx.require(len(isnew) == 1, "gate: the engine branch does not test is_new_pattern")
        for ivc in iv_calls:
            eng = unparse(ivc.func.value)
            ctx.check("R3", [unparse(a_) for a_ in ivc.args] == [p_new, p_pat], f"gate: {eng}.is_valid({p_new}, {p_pat})",
                      f"{GATE}: the new version is not validated against the given pattern", unparse(ivc), loc=gate.loc(ivc))
            r = gpc.reach(gcfg.node_containing(ivc)).project(["is_new_pattern"])
            want = BF.var("is_new_pattern") if eng == "v2version" else ~BF.var("is_new_pattern")
            ctx.check("R3", r.equiv(want), f"gate: {eng}.is_valid asked exactly when is_new_pattern is {'true' if eng == 'v2version' else 'false'}",
                      f"{GATE}: engine selection for the validity test is wrong", f"{eng} reached iff {r.to_dnf()}", loc=gate.loc(ivc))
        iv_atoms = [a_ for a_ in gpc.atoms if a_.replace(" ", "") in {unparse(c_).replace(" ", "") for c_ in iv_calls}]
        for t in trues:
            r_ = gpc.reach(t)
            held = BF.false()
            for a_ in iv_atoms:
                held = held | BF.var(a_)
            ctx.check("R3", len(iv_atoms) == 2 and r_.implies(held), "gate: `return True` only when is_valid(...) held",
                      f"{GATE}: returns True although the new version is not valid for the pattern", r_.to_dnf(), loc=gate.loc(gcfg.nodes[t].ast))
        from sa.report import run_prerequisite as _rp
        _rp(ctx, "C09", ("R3", "R4"), "R3")
    else:
        parse_nodes = {}
        for eng in ("v2version", "v1version"):
            cs = shapes.find_calls(prog, gate, f"{eng}.parse_version_info")
            if not cs:
                ctx.bad("R3", f"{GATE}: returns True without parsing the new version against the pattern",
                        f"the gate contains no call of {eng}.parse_version_info: a version computed by the increment logic (e.g. week 53 for a part that admits 00-52) "
                        f"is announced although it does not match the configured pattern in full", loc=gate.loc(), witness={"version": "v2018w52.1001", "pattern": "vYYYYw0W.BUILD", "date": "2018-12-31"},
                        what=f"gate: {eng}.parse_version_info({p_new}, {p_pat})")
                continue
            ctx.require(len(cs) == 1, f"gate: expected one {eng}.parse_version_info call")
            parse_nodes[eng] = gcfg.node_containing(cs[0])
            ctx.check("R3", [unparse(a) for a in cs[0].args] == [p_new, p_pat], f"gate: {eng}.parse_version_info({p_new}, {p_pat})",
                      f"{GATE}: the new version is not parsed against the given pattern", unparse(cs[0]), loc=gate.loc(cs[0]))
        reach_wo_parse = gcfg.reachable(blocked_nodes=list(parse_nodes.values()))
        for t in trues:
            ctx.check("R3", t not in reach_wo_parse, "gate: `return True` only after a parse_version_info call completed",
                      f"{GATE}: returns True without parsing the new version against the pattern", "", loc=gate.loc(gcfg.nodes[t].ast))
        # a PatternError handler must lead to False
        hs = shapes.handlers_catching(gcfg, ["PatternError"])
        ctx.floor("R3", "PatternError handlers in the gate", len(hs), 1)
        for h in hs:
            r = gcfg.reachable(h)
            ctx.check("R3", not (set(trues) & r), "gate: a PatternError leads to `return False`",
                      f"{GATE}: a version that does not match the pattern can still be accepted",
                      "`return True` is reachable from the PatternError handler", loc=gate.loc(gcfg.nodes[h].ast))
        # engine selection inside the gate
        isnew = [a for a in gpc.atoms if a == "is_new_pattern"]
        if isnew:
            for eng, want in (("v2version", BF.var("is_new_pattern")), ("v1version", ~BF.var("is_new_pattern"))):
                r = gpc.reach(parse_nodes[eng]).project(["is_new_pattern"])
                ctx.check("R3", r.equiv(want), f"gate: {eng} parser used exactly when is_new_pattern is {'true' if eng == 'v2version' else 'false'}",
                          f"{GATE}: engine selection for the validity parse is wrong", f"{eng} reached iff {r.to_dnf()}", loc=gate.loc())
    # comparison
    cmp_bf = None
    cmp_desc = ""
    for a in gpc.atoms:
        tree = shapes.inline(gate, ast.parse(a, mode="eval").body, prog)
        cs = shapes.compare_shape(tree)
        if cs is None:
            continue
        op, l, r = cs

        def keyed(e: ast.AST) -> T.Optional[str]:
            if isinstance(e, ast.Call) and len(e.args) == 1:
                t = prog.resolve_name(gate.module, e.func, gate, cfgs.types(GATE))
                if t.fn is not None and t.fn.fq == "version.parse_version":
                    return unparse(e.args[0])
            return None
        kl, kr = keyed(l), keyed(r)
        raw = {unparse(l), unparse(r)} == {p_new, p_old}
        if raw:
            ctx.bad("R3", f"{GATE}: versions are compared as raw strings", f"`{a}` does not go through version.parse_version (PEP 440 ordering)",
                    loc=gate.loc(), what="gate compares under version.parse_version")
            continue
        if kl is None or kr is None or {kl, kr} != {p_new, p_old}:
            continue
        if kl == p_old:
            op = shapes.mirror(op)
        # op now reads  K(new) op K(old)
        cmp_desc = f"K({p_new}) {op} K({p_old})"
        v = BF.var(a)
        if op == "<=":
            cmp_bf = ("ok", ~v)           # accept requires not (new <= old)
        elif op == ">":
            cmp_bf = ("ok", v)
        elif op == "<":
            cmp_bf = ("weak", ~v)
        elif op == ">=":
            cmp_bf = ("weak", v)
        else:
            cmp_bf = ("eq", v if op == "!=" else ~v)
    if cmp_bf is None:
        ctx.bad("R3", f"{GATE}: no `new > old` comparison under version.parse_version", "the gate never compares the parsed versions",
                loc=gate.loc(), what="gate compares new and old under version.parse_version")
    else:
        kind, accept = cmp_bf
        acc = BF.false()
        for t in trues:
            acc = acc | gpc.reach(t)
        if kind == "ok":
            ctx.check("R3", acc.implies(accept), f"gate: `return True` implies {p_new} > {p_old} under parse_version  [{cmp_desc}]",
                      f"{GATE}: returns True although the new version is not greater", f"accepts when {(acc & ~accept).to_dnf()}", loc=gate.loc())
        elif kind == "weak":
            ctx.bad("R3", f"{GATE}: the comparison admits an equal version", f"the gate rejects only on `{cmp_desc}`: a new version that is PEP 440-equal "
                    f"to the old one (1.2 vs 1.2.0) passes", loc=gate.loc(), witness={"old": "1.2", "new": "1.2.0"}, what="gate comparison is strict")
        else:
            ctx.bad("R3", f"{GATE}: the comparison is an (in)equality test, not an ordering", cmp_desc, loc=gate.loc(), what="gate comparison is strict")
    # uniqueness inside the gate (also C09/R5)
    memb = [a for a in gpc.atoms if a.startswith(f"{p_new} in ")]
    if "unique" in gate.all_params:
        ok_u = False
        if "unique" in gpc.atoms and len(memb) == 1:
            acc = BF.false()
            for t in trues:
                acc = acc | gpc.reach(t)
            ok_u = acc.implies(~(BF.var("unique") & BF.var(memb[0])))
        ctx.check("R3", ok_u, "gate: with unique requested, an existing equal tag is rejected",
                  f"{GATE}: the uniqueness request is ignored", "return True reachable with unique and new_version among the tags", loc=gate.loc())

    # ---------------------------------------------------------------- R4
    for eng in ("v2version", "v1version"):
        full_match_rule(ctx, eng, "R4")


def full_match_rule(ctx, eng: str, rule: str = "R4") -> None:
    """parse_version_info of `eng` returns normally only for a full-length match."""
    prog, cfgs = ctx.prog, ctx.cfgs
    fq = f"{eng}.parse_version_info"
    fn = prog.function(fq)
    ctx.visit(fq)
    cfg = cfgs.get(fq)
    pc = PathCond(cfg)
    p_ver = fn.params[0]
    mcalls = [c for c in ast.walk(fn.node) if isinstance(c, ast.Call) and isinstance(c.func, ast.Attribute) and c.func.attr in ("match", "fullmatch", "search")
              and unparse(c.func.value).endswith("regexp")]
    if not mcalls:
        # the expression may be derived from the pattern's (re.compile of an anchored copy ...): the regex call that receives the version string
        mcalls = [c for c in ast.walk(fn.node) if isinstance(c, ast.Call) and isinstance(c.func, ast.Attribute) and c.func.attr in ("match", "fullmatch", "search")
                  and c.args and unparse(c.args[0]) == p_ver]
    reassigned = [st for st, tg, _v in shapes.iter_assigns(fn.node) if unparse(tg) == p_ver]
    if reassigned:
        ctx.bad(rule, f"{fq}: the version string is altered before it is (re-)matched",
                f"`{unparse(reassigned[0])[:70]}`: a text other than the one given (a tag, --set-version, the config value) is matched against the pattern, "
                f"so a string that does not match the pattern in full is accepted - e.g. the tag `v2.0.0` for the pattern MAJOR.MINOR.PATCH",
                loc=fn.loc(reassigned[0]), witness={"pattern": "MAJOR.MINOR.PATCH", "tag": "v2.0.0"}, what=f"{fq}: the given string itself is matched")
        if len(mcalls) != 1:
            return
    ctx.require(len(mcalls) == 1, f"{fq}: expected one regexp match call")
    mc = mcalls[0]
    ctx.check(rule, unparse(mc.args[0]) == p_ver and mc.func.attr in ("match", "fullmatch"), f"{fq}: matches `{p_ver}` from its first character",
              f"{fq}: the version string is not matched from its start", unparse(mc), loc=fn.loc(mc))
    mvar = None
    for st, v in [(n, n.value) for n in walk_no_nested(fn.node) if isinstance(n, ast.Assign)]:
        if v is mc and isinstance(st.targets[0], ast.Name):
            mvar = st.targets[0].id
    ctx.require(mvar is not None, f"{fq}: match result is not bound to a variable")
    ex = pc.reach(cfg.exit)
    none_atom = f"{mvar} is None"
    ok_none = (none_atom in pc.atoms and ex.implies(~BF.var(none_atom))) or (mvar in pc.atoms and ex.implies(BF.var(mvar)))
    ctx.check(rule, ok_none, f"{fq}: a failed match never returns normally", f"{fq}: returns normally although the regex did not match",
              f"normal return when {ex.to_dnf()}", loc=fn.loc())
    full = mc.func.attr == "fullmatch"
    desc = "regexp.fullmatch" if full else ""
    if not full:
        for a in pc.atoms:
            tree = shapes.inline(fn, ast.parse(a, mode="eval").body, prog)
            cs = shapes.compare_shape(tree)
            if cs is None:
                continue
            op, l, r = cs
            lt, rt = unparse(l), unparse(r)
            M = shapes.inline_text(fn, ast.Name(id=mvar, ctx=ast.Load()), prog)
            ends = tuple(t.format(m=m) for m in (mvar, M) for t in ("len({m}.group())", "len({m}.group(0))", "{m}.end()", "{m}.span()[1]", "len({m}[0])"))
            total = f"len({p_ver})"
            if rt in ends and lt == total:
                lt, rt, op = rt, lt, shapes.mirror(op)
            if lt in ends and rt == total:
                v = BF.var(a)
                if op in ("<", "!="):
                    full = ex.implies(~v)
                elif op in ("==", ">="):
                    full = ex.implies(v)
                desc = f"{a}"
    what = f"{fq}: normal return only for a full-length match" + (f" [{desc}]" if desc else "")
    if full:
        ctx.ok(rule, what)
    else:
        ctx.bad(rule, f"{fq}: a prefix match is accepted as a full version",
                f"`{unparse(mc)[:80]}` anchors only the start (a `$` in the expression also matches before a final line feed) and nothing compares the match length with len({p_ver}): "
                f"the gate accepts a version with trailing garbage, which is then announced/written although it does not match the pattern in full",
                loc=fn.loc(mc), what=what,
                witness={"cmd": "bumpver test v201712.0033 '{pycalver}' --set-version v201801.0034.5", "announced": "v201801.0034.5"} if eng == "v1version" else None)
