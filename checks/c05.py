"""C05 - bump semantics follow the documented part rules (structural necessary conditions)."""
from __future__ import annotations

import ast
import typing as T

from sa import formats, relang as rl, shapes
from sa.boolfn import BF
from sa.model import AnalysisError, call_arg, const_str, unparse, walk_no_nested
from sa.pathcond import PathCond

TECHNIQUE = "path-condition extraction of every field update in _incr_numeric, keyword-wiring checks along test/update -> incr_dispatch -> incr, table equality, truthiness lint on pinned calendar fields"
EXPLANATION = (
    "The resulting part values for every pattern x value x flag set are arithmetic over runtime values and are NOT decided. "
    "Decided are the structural necessary conditions of the README rules: (R1) in _incr_numeric each field is replaced by "
    "field+1 under exactly its own flag (major/minor/patch/tag_num; inc0/inc1 unless pinned; tag/pytag/num on --tag), "
    "extracted as exact path conditions; (R2) each of the eight increment options reaches incr_dispatch and the engines' "
    "incr under the same keyword; (R3) the reset table is exactly {major,minor,patch,num,inc0 -> 0, inc1 -> 1} and is "
    "applied generically, left-to-right; (R4) the calendar comes from the given date unless pinned, and a version from the "
    "future keeps its calendar; (R5) a pinned calendar field whose domain contains 0 is carried over with an `is None` "
    "test, not with `or`; (R6) every accepted --tag value is renderable and recognisable."
)
LEVEL_NOTE = "PARTIAL: decides wiring/table rules, not the value-level behaviour (part arithmetic, optional-group omission for every pattern)."

EXPECT_INCR = {"major": "major", "minor": "minor", "patch": "patch", "num": "tag_num"}
OPTIONS = ["major", "minor", "patch", "tag", "tag_num", "pin_increments", "pin_date", "maybe_date"]


def run(ctx) -> None:
    prog, cfgs = ctx.prog, ctx.cfgs
    ctx.rule("R1", "_incr_numeric: each field update happens under exactly its own flag, by +1")
    ctx.rule("R2", "the eight increment options are wired under the same keyword down to both engines")
    ctx.rule("R3", "reset table = {major,minor,patch,num,inc0:0, inc1:1}; applied generically in pattern order")
    ctx.rule("R4", "calendar from the given date unless pinned; future guard keeps the old calendar")
    ctx.rule("R5", "pinned calendar fields with 0 in their domain are carried over by `is None`, not truthiness")
    ctx.rule("R6", "accepted --tag values are keys of the tag map and words of the TAG regex; inapplicable part flags are rejected (cli._validate_flags evaluated)")
    ctx.rule("R7", "prerequisite: BUILD is advanced on every bump, never reset, stays a string (C17/R1-R3)")
    ctx.rule("R9", "a part not addressed by a flag is unchanged: every increment / pin flag is off unless given (click declarations)")
    shapes.cli_option_rule(ctx, "R9", ["--major", "--minor", "--patch", "--tag-num", "--pin-increments", "--pin-date", "--tag", "--date", "--set-version"])
    ctx.rule("R10", "calendar parts 'taken from the given date': an unusable --date (or --date together with --pin-date) is fatal, not merely logged")
    shapes.errors_are_fatal(ctx, "R10", "cli._validate_date", 2)
    ctx.rule("R11", "parts not addressed by a flag are unchanged / TAG carried over: the reader hands every captured non-calendar value (and the other tag form) to the bump unchanged (C02's reader rule)")
    from checks.c02 import reader_fold_rule, parsed_quarter_rule
    reader_fold_rule(ctx, "R11")
    parsed_quarter_rule(ctx, "R11", "v2version.parse_field_values_to_cinfo")
    ctx.rule("R8", "calendar parts 'taken from the given date': both calendar producers bind each field to its strftime directive, quarter = ((month-1)//3)+1")
    from sa.report import run_prerequisite
    run_prerequisite(ctx, "C17", ("R1", "R2", "R3"), "R7")
    from checks.c14 import calendar_producers_rule
    calendar_producers_rule(ctx, "R8")

    # ---------------------------------------------------------------- R1
    ev1 = incr_numeric_eval(ctx)
    if ev1 is not None:
        ctx.check("R1", not ev1, f"_incr_numeric: each flag bumps its own part by one, --tag sets both tag forms and restarts NUM on a change, INC0/INC1 advance unless pinned, "
                  f"the result goes through the rollover reset ({ctx.notes.get('incr_numeric_cases')} flag / tag / build id combinations evaluated)",
                  "v2version._incr_numeric: the bumped record is not what the flags prescribe", "; ".join(ev1[:2]), loc=prog.function("v2version._incr_numeric").loc(),
                  witness={"case": ev1[0].split(":")[0] if ev1 else ""})
    # the statement-by-statement reading of the same function (which update under which flag) decides when the body cannot be evaluated
    if ev1 is None:
        inc = prog.function("v2version._incr_numeric")
        ctx.visit(inc.fq)
        cfg = cfgs.get(inc.fq)
        pc = PathCond(cfg)
        cur = "cur_vinfo"
        ctx.require(cur in inc.params, "_incr_numeric lost its cur_vinfo parameter")
        facts: T.List[T.Tuple[str, str, BF, ast.AST]] = []
        for n in cfg.nodes:
            if n.kind != "stmt" or not isinstance(n.ast, ast.Assign) or n.id not in cfg.reachable():
                continue
            v = n.ast.value
            if isinstance(v, ast.Call) and isinstance(v.func, ast.Attribute) and v.func.attr == "_replace" and unparse(v.func.value) == cur \
                    and unparse(n.ast.targets[0]) == cur:
                for kw in v.keywords:
                    ctx.require(kw.arg is not None, "_incr_numeric: _replace(**...) not enumerated")
                    e = shapes.resolve_alias(inc, kw.value)
                    if isinstance(e, ast.BinOp) and isinstance(e.op, ast.Add) and unparse(e.left) == f"{cur}.{kw.arg}" and isinstance(e.right, ast.Constant):
                        kind = f"+{e.right.value}"
                    elif isinstance(e, ast.BinOp) and isinstance(e.op, ast.Add) and isinstance(e.left, ast.Constant) and unparse(e.right) == f"{cur}.{kw.arg}":
                        kind = f"+{e.left.value}"
                    elif isinstance(e, ast.Constant):
                        kind = f"={e.value!r}"
                    else:
                        kind = f"={unparse(e)}"
                    facts.append((kw.arg, kind, pc.reach(n.id), n.ast))
        ctx.floor("R1", "field updates in _incr_numeric", len(facts), 9)
        params = [p for p in inc.params if p in ("major", "minor", "patch", "tag", "tag_num", "pin_increments")]
        ctx.require(len(params) == 6, "_incr_numeric lost a flag parameter")

        def cond_of(field: str, kindpred: T.Callable[[str], bool]) -> T.Tuple[BF, T.List[str]]:
            f = BF.false()
            kinds = []
            for fld, kind, r, _n in facts:
                if fld == field and kindpred(kind):
                    f = f | r
                    kinds.append(kind)
            return f, kinds

        for field, flag in EXPECT_INCR.items():
            got, kinds = cond_of(field, lambda k: k.startswith("+"))
            got = got.project(params)
            ctx.check("R1", got.equiv(BF.var(flag)) and kinds == ["+1"],
                      f"_incr_numeric: {field} := {field} + 1 exactly when `{flag}`  [{got.to_dnf()}, {kinds}]",
                      f"v2version._incr_numeric: field '{field}' is not incremented by 1 under exactly --{flag.replace('_', '-')}",
                      f"incremented {kinds} when {got.to_dnf()}; required +1 iff {flag}", loc=inc.loc(), witness=got.diff_witness(BF.var(flag)))
        for field in ("inc0", "inc1"):
            got, kinds = cond_of(field, lambda k: k.startswith("+"))
            got = got.project(params)
            ctx.check("R1", got.equiv(~BF.var("pin_increments")) and kinds == ["+1"],
                      f"_incr_numeric: {field} := {field} + 1 exactly when not pin_increments",
                      f"v2version._incr_numeric: auto-increment '{field}' is not +1 exactly unless pinned", f"{kinds} when {got.to_dnf()}", loc=inc.loc())
        got, kinds = cond_of("tag", lambda k: k == "=tag")
        ctx.check("R1", got.project(params).equiv(BF.var("tag")), "_incr_numeric: tag := tag exactly when --tag is given",
                  "v2version._incr_numeric: release tag not set exactly under --tag", f"{kinds} when {got.to_dnf()}", loc=inc.loc())
        got, kinds = cond_of("pytag", lambda k: "PEP440_TAG_BY_TAG[tag]" in k)
        ctx.check("R1", got.project(params).equiv(BF.var("tag")), "_incr_numeric: pytag := PEP440_TAG_BY_TAG[tag] exactly when --tag is given",
                  "v2version._incr_numeric: pytag not derived from the new tag under --tag", f"{kinds} when {got.to_dnf()}", loc=inc.loc())
        got, kinds = cond_of("num", lambda k: k == "=0")
        neq = [a for a in got.atoms if a.replace(" ", "") in (f"tag=={cur}.tag", f"{cur}.tag==tag")]
        ok = len(neq) == 1 and got.project(params + neq).equiv(BF.var("tag") & ~BF.var(neq[0]))
        ctx.check("R1", ok, "_incr_numeric: num := 0 exactly when --tag changes the tag",
                  "v2version._incr_numeric: NUM is not reset exactly when the tag changes", f"{kinds} when {got.to_dnf()}", loc=inc.loc())
        known = set(EXPECT_INCR) | {"inc0", "inc1", "tag", "pytag", "bid"}
        for fld, kind, r, node in facts:
            if fld not in known:
                ctx.bad("R1", f"v2version._incr_numeric: unexpected update of field '{fld}'", f"`{unparse(node)}`", loc=inc.loc(node))
            elif fld in EXPECT_INCR and kind not in ("+1", "=0"):
                ctx.bad("R1", f"v2version._incr_numeric: field '{fld}' updated by {kind}", f"`{unparse(node)}`", loc=inc.loc(node))
        # result goes through the reset
        rets = [n for n in walk_no_nested(inc.node) if isinstance(n, ast.Return)]
        ok = len(rets) == 1 and isinstance(rets[0].value, ast.Call) and unparse(rets[0].value.func) == "_reset_rollover_fields" \
            and [unparse(a) for a in rets[0].value.args] == ["raw_pattern", "old_vinfo", cur]
        ctx.check("R1", ok, "_incr_numeric returns _reset_rollover_fields(raw_pattern, old_vinfo, cur_vinfo)",
                  "v2version._incr_numeric: result does not go through the rollover reset", unparse(rets[0]) if rets else "", loc=inc.loc())

    # ---------------------------------------------------------------- R2
    same = {k: k for k in OPTIONS}
    for root in ("cli.test", "cli.update"):
        exp = dict(same)
        exp["maybe_date"] = lambda fn, e: isinstance(e, ast.Call) and unparse(e.func) == "_validate_date" and [unparse(a) for a in e.args] == ["date", "pin_date"]
        exp["maybe_date"].__doc__ = "_validate_date(date, pin_date)"
        shapes.check_passthrough(ctx, "R2", root, "cli.incr_dispatch", exp)
    shapes.check_passthrough(ctx, "R2", "cli.incr_dispatch", "v2version.incr", dict(same, raw_pattern="raw_pattern", old_version="old_version"))
    v1 = {k: k for k in OPTIONS if k != "pin_increments"}
    shapes.check_passthrough(ctx, "R2", "cli.incr_dispatch", "v1version.incr", dict(v1, raw_pattern="raw_pattern", old_version="old_version"))
    shapes.check_passthrough(ctx, "R2", "v2version.incr", "v2version._incr_numeric",
                             {k: k for k in ("major", "minor", "patch", "tag", "tag_num", "pin_increments", "raw_pattern", "old_vinfo")})
    # click options exist for each parameter
    vo = prog.function("cli.version_options")
    opts = [const_str(a) for c in ast.walk(vo.node) if isinstance(c, ast.Call) and unparse(c.func) == "click.option" for a in c.args if const_str(a)]
    for o in ("--major", "--minor", "--patch", "--tag", "--tag-num", "--pin-increments", "--pin-date", "--date", "--set-version"):
        ctx.check("R2", o in opts, f"version_options declares {o}", f"cli.version_options: option {o} missing", f"{opts}", loc=vo.loc())

    # ---------------------------------------------------------------- R3
    init = prog.const("version", "V2_FIELD_INITIAL_VALUES")
    want = {"major": "0", "minor": "0", "patch": "0", "num": "0", "inc0": "0", "inc1": "1"}
    ctx.check("R3", init == want, "V2_FIELD_INITIAL_VALUES == {major,minor,patch,num,inc0: '0', inc1: '1'} (BUILD/TAG carried over)",
              "version.V2_FIELD_INITIAL_VALUES differs from the documented reset rule", f"{init}", loc="src/bumpver/version.py",
              witness={k: (init.get(k), want.get(k)) for k in set(init) | set(want) if init.get(k) != want.get(k)})
    zero = prog.const("version", "PART_ZERO_VALUES")
    from checks.c02 import part_tables as _pt
    _pats, _fields, _fmts = _pt(ctx)
    for part, z in sorted(zero.items()):
        fld = _fields.get(part)
        if fld in ("tag",):
            good = z == "final"
        elif fld in ("pytag",):
            good = z == ""
        else:
            good = z == "0"
        ctx.check("R3", good, f"PART_ZERO_VALUES[{part!r}] = {z!r} is the part's zero (0 / final / empty)", f"version.PART_ZERO_VALUES[{part!r}] is not a zero value: an optional group is omitted although its part is not zero",
                  f"{part} -> {z!r} (field {fld})", loc="src/bumpver/version.py", witness={"pattern": f"YYYY.MM[.{part}]", "value": z})
    from checks.c02 import omission_rule
    omission_rule(ctx, "R3")
    # ... "exactly when all their parts are zero": every part that can be zero has its zero value, equal to what its absent group reads back as (C02/R5)
    run_prerequisite(ctx, "C02", ("R5",), "R3")
    # the reset loop: "any field to the left of another can reset all to the right".  It lives in _iter_reset_field_items
    # (a generator) in the pinned tree; merged into _reset_rollover_fields it fills a dict instead - located by role
    rr = prog.function("v2version._reset_rollover_fields")
    ctx.visit(rr.fq)
    it = prog.function("v2version._iter_reset_field_items") if prog.has_function("v2version._iter_reset_field_items") else rr
    ctx.visit(it.fq)
    icfg = cfgs.get(it.fq)
    ipc = PathCond(icfg)
    loops = [n for n in walk_no_nested(it.node) if isinstance(n, ast.For) and isinstance(n.target, ast.Name)
             and any(isinstance(c_, ast.Call) and unparse(c_.func).endswith("V2_FIELD_INITIAL_VALUES.get") and c_.args and unparse(c_.args[0]) == n.target.id for c_ in ast.walk(n))]
    ctx.require(len(loops) == 1, f"{it.fq}: the loop that looks up V2_FIELD_INITIAL_VALUES per field was not found")
    loop = loops[0]
    fvar = loop.target.id
    # emission: `yield field, value`  or  `<dict>[field] = value`
    emits: T.List[T.Tuple[ast.AST, ast.AST, ast.AST]] = []        # (node for the CFG, key expr, value expr)
    for n in ast.walk(loop):
        if isinstance(n, ast.Yield) and isinstance(n.value, ast.Tuple) and len(n.value.elts) == 2:
            emits.append((n, n.value.elts[0], n.value.elts[1]))
        elif isinstance(n, ast.Assign) and isinstance(n.targets[0], ast.Subscript) and unparse(n.targets[0].slice) == fvar:
            emits.append((n.value, n.targets[0].slice, n.value))
    ctx.require(len(emits) == 1, f"{it.fq}: expected one emission of a (field, initial value) pair in the reset loop, found {len(emits)}")
    e_node, e_key, e_val = emits[0]
    fields_src = unparse(shapes.inline(it, loop.iter, prog, consts=False))
    in_order = (it is not rr and unparse(loop.iter) == it.params[0]) or (it is rr and fields_src in ("_parse_pattern_fields(raw_pattern)", f"_parse_pattern_fields({rr.params[0]})"))
    ctx.check("R3", in_order, f"{it.name} walks the pattern's fields in order",
              f"v2version.{it.name}: fields are not visited in pattern order", fields_src, loc=it.loc(loop))
    ycond = ipc.reach(icfg.node_containing(e_node)).drop_unused()
    none_atoms = [a for a in ycond.atoms if a.endswith("is None")]
    ok = "has_reset" in ycond.atoms and len(none_atoms) == 1 and ycond.equiv(BF.var("has_reset") & ~BF.var(none_atoms[0]))
    ctx.check("R3", ok, f"{it.name}: a field is reset iff something to its left changed and it has an initial value  [{ycond.to_dnf()}]",
              f"v2version.{it.name}: reset condition changed", f"emitted when {ycond.to_dnf()}", loc=it.loc(e_node))
    ok = unparse(e_key) == fvar and shapes.flows_from(it, e_val, lambda e: isinstance(e, ast.Call) and unparse(e.func).endswith("V2_FIELD_INITIAL_VALUES.get"))
    ctx.check("R3", ok, f"{it.name} emits (field, V2_FIELD_INITIAL_VALUES.get(field))", f"v2version.{it.name}: emits something else than the initial value",
              f"{unparse(e_key)} -> {unparse(e_val)}", loc=it.loc(e_node))
    sets = [n for n in icfg.nodes if n.kind == "stmt" and isinstance(n.ast, ast.Assign) and unparse(n.ast.targets[0]) == "has_reset"
            and isinstance(n.ast.value, ast.Constant) and n.ast.value.value is True]
    ctx.require(len(sets) == 1, f"{it.name}: `has_reset = True` not found")
    scond = ipc.reach(sets[0].id).drop_unused()
    chg = [a for a in scond.atoms if "getattr" in a]
    ok = len(chg) == 1
    if ok:
        tree = ast.parse(chg[0], mode="eval").body
        cs = shapes.compare_shape(tree)
        old_p, cur_p = (it.params[1], it.params[2]) if it is not rr else (rr.params[1], rr.params[2])
        ok = cs is not None and cs[0] == "==" and {unparse(cs[1]), unparse(cs[2])} == {f"getattr({old_p}, {fvar})", f"getattr({cur_p}, {fvar})"}
        ok = ok and (~BF.var(chg[0]) & ~BF.var("has_reset")).implies(scond.project([chg[0], "has_reset"])) and scond.implies(~BF.var(chg[0]))
    ctx.check("R3", ok, f"{it.name}: has_reset is set when a field differs between old and current version",
              f"v2version.{it.name}: change detection altered", f"set when {scond.to_dnf()}", loc=it.loc(sets[0].ast))
    stores = [n for n in ast.walk(rr.node) if isinstance(n, ast.Assign) and isinstance(n.targets[0], ast.Subscript) and unparse(n.targets[0]) == "cur_kwargs[field]"]
    gen_loop = [n for n in walk_no_nested(rr.node) if isinstance(n, ast.For) and unparse(n.iter) == "reset_fields.items()"]
    ctx.check("R3", len(stores) >= 1 and len(gen_loop) == 1, "_reset_rollover_fields applies every (field, value) of the reset items generically",
              "v2version._reset_rollover_fields: reset items are not applied generically", "", loc=rr.loc())
    fields_name = "fields"
    if it is not rr:
        rf = shapes.single_def(rr, "reset_fields")
        icalls_ = [c_ for c_ in ast.walk(rf) if isinstance(c_, ast.Call) and unparse(c_.func) == "_iter_reset_field_items"] if rf is not None else []
        ok = len(icalls_) == 1 and len(icalls_[0].args) == 3 and isinstance(icalls_[0].args[0], ast.Name) and [unparse(a_) for a_ in icalls_[0].args[1:]] == [rr.params[1], rr.params[2]]
        if ok:
            fields_name = icalls_[0].args[0].id          # the local that holds the pattern's fields (whatever it is called)
        ctx.check("R3", ok, "_reset_rollover_fields: reset items computed from (fields, old_vinfo, cur_vinfo)", "v2version._reset_rollover_fields: reset items computed from other arguments",
                  unparse(rf) if rf is not None else "", loc=rr.loc())
    # the explicit reset chain `if '<f>' in reset_fields: cur_vinfo = cur_vinfo._replace(<f>=<const>)` repeats the table: same values
    init_tab = prog.const("version", "V2_FIELD_INITIAL_VALUES")
    for iff in [n for n in walk_no_nested(rr.node) if isinstance(n, ast.If) and isinstance(n.test, ast.Compare) and isinstance(n.test.ops[0], ast.In) and const_str(n.test.left)]:
        for c_ in ast.walk(iff):
            if isinstance(c_, ast.Call) and isinstance(c_.func, ast.Attribute) and c_.func.attr == "_replace":
                for kw_ in c_.keywords:
                    if kw_.arg in init_tab and isinstance(kw_.value, ast.Constant):
                        want_v = int(init_tab[kw_.arg]) if init_tab[kw_.arg].isdigit() else init_tab[kw_.arg]
                        ctx.check("R3", kw_.value.value == want_v, f"_reset_rollover_fields: explicit reset of {kw_.arg} to {want_v!r} (V2_FIELD_INITIAL_VALUES)",
                                  f"v2version._reset_rollover_fields: `{kw_.arg}` is reset to a value other than its initial value",
                                  f"`{unparse(c_)}` under `{unparse(iff.test)}`; the table says {init_tab[kw_.arg]!r}", loc=rr.loc(c_), witness={"field": kw_.arg, "reset to": kw_.value.value})
    fd = shapes.single_def(rr, fields_name)
    reset_rollover_eval(ctx, "R3")
    ctx.check("R3", fd is not None and unparse(fd) == f"_parse_pattern_fields({rr.params[0]})", "_reset_rollover_fields: field order from _parse_pattern_fields(raw_pattern)",
              "v2version._reset_rollover_fields: field order not taken from the pattern", "", loc=rr.loc())
    ppf = prog.function("v2version._parse_pattern_fields")
    rets = [n for n in walk_no_nested(ppf.node) if isinstance(n, ast.Return)]
    ok = field_order_rule(ctx, "R3") or (len(rets) == 1 and "sorted(fields_by_index.items())" in unparse(rets[0]))
    ctx.check("R3", ok, "_parse_pattern_fields returns fields sorted by (segment, position)", "v2version._parse_pattern_fields: fields not ordered left to right",
              unparse(rets[0]) if rets else "", loc=ppf.loc())

    # ---------------------------------------------------------------- R4
    for eng in ("v2version", "v1version"):
        fq = f"{eng}.incr"
        fn = prog.function(fq)
        ctx.visit(fq)
        from sa.pathcond import assign_facts, ifexp_atoms
        cfg = cfgs.get(fq)
        pc0 = PathCond(cfg, extra_atoms=[a_ for a_ in ifexp_atoms(fn.node)])
        facts = assign_facts(cfg, pc0, ("date", "cur_cinfo"))
        none_atom = "maybe_date is None" if "maybe_date is None" in pc0.atoms else None
        by = {}
        for name, val, cond, _st in facts:
            by.setdefault(name, []).append((unparse(val), val, cond))
        # cal_info itself turns "no date" into today: then None may be handed on as it is
        ci_fn = prog.function(f"{eng}.cal_info")
        ci_p = ci_fn.params[0] if ci_fn.params else "date"
        ci_today = any(isinstance(n_, ast.If) and unparse(n_.test) == f"{ci_p} is None" and len(n_.body) == 1 and isinstance(n_.body[0], ast.Assign)
                       and unparse(n_.body[0].targets[0]) == ci_p and unparse(n_.body[0].value) in ("version.TODAY", "TODAY") for n_ in ci_fn.node.body) \
            or any(isinstance(n_, (ast.Assign, ast.AnnAssign)) and isinstance(n_.value, ast.IfExp) and (
                (unparse(n_.value.test) == f"{ci_p} is None" and unparse(n_.value.body) in ("version.TODAY", "TODAY") and unparse(n_.value.orelse) == ci_p)
                or (unparse(n_.value.test) == f"{ci_p} is not None" and unparse(n_.value.orelse) in ("version.TODAY", "TODAY") and unparse(n_.value.body) == ci_p))
                and formats.date_name(ci_fn) != ci_p for n_ in ci_fn.node.body)
        fresh_calls = {"cal_info(date)"} | ({"cal_info(maybe_date)", "cal_info(date=maybe_date)"} if ci_today else set())
        # date
        ok = False
        if "date" in by and none_atom:
            today = BF.false()
            given = BF.false()
            other = False
            for txt, _v, cond in by["date"]:
                if txt == "version.TODAY" or (ci_today and txt == "None"):
                    today = today | cond
                elif txt == "maybe_date":
                    given = given | cond
                else:
                    other = True
            N = BF.var(none_atom)
            today_p, given_p = today.project([none_atom]), given.project([none_atom])
            ok = not other and (today_p & ~N).is_false() and (~N).implies(given_p) \
                and N.implies(today_p | (given_p if ci_today else BF.false())) and (ci_today or (given_p & N).is_false())
        elif "date" in by and len(by["date"]) == 1 and by["date"][0][0] == "maybe_date or version.TODAY":
            ok = True
        elif "date" in by and len(by["date"]) == 1 and by["date"][0][0] == "maybe_date" and ci_today:
            ok = True
        elif "date" not in by and ci_today and any(t_ in fresh_calls - {"cal_info(date)"} for t_, _v, _c in by.get("cur_cinfo", [])):
            ok = True
        ctx.check("R4", ok, f"{fq}: date = maybe_date, else version.TODAY", f"{fq}: the bump date is not the given --date (else today)",
                  f"{[(t, c.to_dnf(3)) for t, _v, c in by.get('date', [])]}", loc=fn.loc())
        # calendar source
        ok = False
        if "cur_cinfo" in by and "pin_date" in pc0.atoms:
            pinned = BF.false()
            fresh = BF.false()
            other = False
            for txt, v, cond in by["cur_cinfo"]:
                if txt in fresh_calls:
                    fresh = fresh | cond
                elif isinstance(v, ast.Call) and [unparse(x) for x in v.args] == ["old_vinfo"] and prog.resolve_call(fn, v, count=False).kind == "func":
                    pinned = pinned | cond
                    ctx.notes[f"{eng}_pin_fn"] = prog.resolve_call(fn, v, count=False).name
                elif isinstance(v, ast.Call) and unparse(v.func).endswith("CalendarInfo") and v.args and \
                        all(isinstance(x, ast.Attribute) and unparse(x.value) == "old_vinfo" for x in list(v.args) + [k.value for k in v.keywords]):
                    pinned = pinned | cond          # the parsed calendar rebuilt in place
                else:
                    other = True
            P = BF.var("pin_date")
            ok = not other and pinned.project(["pin_date"]).equiv(P) and fresh.project(["pin_date"]).equiv(~P)
        ctx.check("R4", ok, f"{fq}: calendar = parsed calendar when pinned, else cal_info(date)", f"{fq}: calendar source does not follow --pin-date / --date",
                  f"{[(t, c.to_dnf(3)) for t, _v, c in by.get('cur_cinfo', [])]}", loc=fn.loc())
        cfg = cfgs.get(fq)
        pc = PathCond(cfg)
        fut = [a for a in pc.atoms if a.startswith("_is_cal_gt(")]
        ctx.check("R4", fut == ["_is_cal_gt(old_vinfo, cur_cinfo)"], f"{fq}: future guard is _is_cal_gt(old_vinfo, cur_cinfo)", f"{fq}: future guard arguments changed", f"{fut}", loc=fn.loc())
        if fut:
            for n in cfg.nodes:
                if n.kind == "stmt" and isinstance(n.ast, ast.Assign) and unparse(n.ast.targets[0]) == "cur_vinfo" and n.id in cfg.reachable():
                    v = unparse(n.ast.value)
                    r = pc.reach(n.id).project(fut)
                    if v == "old_vinfo":
                        ctx.check("R4", r.equiv(BF.var(fut[0])), f"{fq}: a version from the future keeps its calendar", f"{fq}: the future guard keeps the old calendar under the wrong condition", r.to_dnf(), loc=fn.loc(n.ast))
                    elif v == "old_vinfo._replace(**cur_cinfo._asdict())":
                        ctx.check("R4", r.equiv(~BF.var(fut[0])), f"{fq}: otherwise calendar fields are replaced by the bump calendar", f"{fq}: calendar replaced under the wrong condition", r.to_dnf(), loc=fn.loc(n.ast))
                    elif isinstance(n.ast.value, ast.IfExp) and {unparse(n.ast.value.body), unparse(n.ast.value.orelse)} == {"old_vinfo", "old_vinfo._replace(**cur_cinfo._asdict())"}:
                        keeps_when_true = unparse(n.ast.value.body) == "old_vinfo"
                        t_ = unparse(n.ast.value.test)
                        ok_ = (t_ == fut[0] and keeps_when_true) or (t_ == f"not {fut[0]}" and not keeps_when_true)
                        ctx.check("R4", ok_, f"{fq}: a version from the future keeps its calendar, otherwise the bump calendar replaces it (conditional expression)",
                                  f"{fq}: the future guard keeps the old calendar under the wrong condition", unparse(n.ast)[:90], loc=fn.loc(n.ast))
                    elif not (isinstance(n.ast.value, ast.Call) and unparse(n.ast.value.func).endswith("_incr_numeric")) and not r.is_false() and eng == "v2version":
                        # (the legacy engine builds the record with other calls; its value flow is C20's subject)
                        ctx.bad("R4", f"{fq}: the record that is bumped is neither the parsed version nor the parsed version with today's calendar",
                                f"`{unparse(n.ast)[:70]}` when {r.to_dnf()}: the parts not addressed by a flag do not come from the current version", loc=fn.loc(n.ast),
                                what=f"{fq}: cur_vinfo is the parsed version (from the future) or the parsed version with the bump calendar")
        none_filter_rule(ctx, eng, "R4")

    # ---------------------------------------------------------------- R5
    from checks.c02 import field_domains, part_tables
    pats, fields, fmts = part_tables(ctx)
    doms = field_domains(ctx, pats)
    zero_fields = {f for f, (d, _p) in doms.items() if d[0] == "ints" and d[1] <= 0 <= d[2]}
    pin = shapes.pinned_calendar_ctor(prog, prog.function("v2version.incr"), "V2CalendarInfo")
    ctx.require(pin is not None, "v2 incr: the place where the parsed calendar is rebuilt for --pin-date was not found")
    vc, ctor0, p_v_txt = pin
    ctx.visit(vc.fq)
    ctor = [ctor0]
    cal_fields = prog.klass("version.V2CalendarInfo").fields
    args = dict(zip(cal_fields, ctor[0].args))
    args.update(shapes.kwargs_of(ctor[0]))
    ctx.floor("R5", "calendar fields carried over by _ver_to_cal_info", len(args), 9)
    p_v = p_v_txt
    import types as _types
    for f in cal_fields:
        e = args.get(f)
        ctx.require(e is not None, f"_ver_to_cal_info does not pass {f}")
        # the value: the parsed field when it is present (0 included where 0 is a value of the field), today's otherwise -
        # decided by folding the argument for a present / absent / zero field
        e_in = e
        roots_ = sorted({x.value.id for x in ast.walk(e_in) if isinstance(x, ast.Attribute) and isinstance(x.value, ast.Name) and x.attr in cal_fields})
        other = [r_ for r_ in roots_ if r_ != p_v]
        if p_v in roots_ and len(other) <= 1:
            samples_ = [None, 7] + ([0] if f in zero_fields else [])
            bad_ = None
            for v_ in samples_:
                # every other field holds a value of its own (on both records): a read of a sibling field shows in the result
                env_ = {p_v: _types.SimpleNamespace(**dict({g_: 1000 + i_ for i_, g_ in enumerate(cal_fields)}, **{f: v_}))}
                if other:
                    env_[other[0]] = _types.SimpleNamespace(**dict({g_: 2000 + i_ for i_, g_ in enumerate(cal_fields)}, **{f: 99}))
                try:
                    got_ = prog.fold(vc.module, e_in, env_)
                except AnalysisError:
                    got_ = "?"
                want_ = v_ if v_ is not None else (99 if other else None)
                if got_ != "?" and got_ != want_ and bad_ is None:
                    bad_ = (v_, got_, want_)
            ctx.check("R5", bad_ is None, f"_ver_to_cal_info: {f} is the parsed value when there is one, today's otherwise",
                      f"v2version._ver_to_cal_info: field '{f}' is not carried over from the pinned version",
                      f"`{unparse(e)}`: for a parsed {f}={bad_[0]!r} the pinned calendar gets {bad_[1]!r} instead of {bad_[2]!r}" if bad_ else "", loc=vc.loc(e),
                      witness={"field": f, "parsed": bad_[0], "pinned": bad_[1]} if bad_ else None)
        uses_truthiness = any(isinstance(op, ast.Attribute) and op.attr == f for _c, op in shapes.bool_contexts(e))
        mentions = any(isinstance(x, ast.Attribute) and x.attr == f and unparse(x.value) == p_v for x in ast.walk(e))
        ctx.check("R5", mentions, f"_ver_to_cal_info: {f} carried over from the parsed version", f"v2version._ver_to_cal_info: field '{f}' is not taken from the pinned version",
                  unparse(e), loc=vc.loc(e))
        if f in zero_fields:
            what = f"_ver_to_cal_info: pinned '{f}' (domain contains 0) is carried over by an `is None` test"
            if uses_truthiness:
                ctx.bad("R5", f"v2version._ver_to_cal_info: pinned field '{f}' is carried over by truthiness",
                        f"`{unparse(e)}` replaces a pinned {f} == 0 by today's value: --pin-date does not keep week number 0",
                        loc=vc.loc(e), witness={"call": "incr('2021.00.1', 'YYYY.0W.PATCH', patch=True, pin_date=True)", "result": "week replaced by the current week"}, what=what)
            else:
                ctx.ok("R5", what)

    # ---------------------------------------------------------------- R6
    tags = prog.const("cli", "VALID_RELEASE_TAG_VALUES")
    t2p = prog.const("version", "PEP440_TAG_BY_TAG")
    tag_rx = rl.to_dfa(rl.from_regex(pats["TAG"]))
    ctx.floor("R6", "accepted --tag values", len(tags), 1)          # a shorter list accepts less; the rules below are per accepted value
    for t in tags:
        ctx.check("R6", t in t2p, f"--tag {t}: key of PEP440_TAG_BY_TAG", f"cli.VALID_RELEASE_TAG_VALUES: '{t}' has no PEP 440 form (KeyError in _incr_numeric)", "", loc="src/bumpver/cli.py")
        ctx.check("R6", tag_rx.accepts(t), f"--tag {t}: recognised by the TAG regex", f"cli.VALID_RELEASE_TAG_VALUES: '{t}' is not recognised by PART_PATTERNS['TAG']", "", loc="src/bumpver/cli.py")
    vt = prog.function("cli._validate_release_tag")
    vcfg = cfgs.get(vt.fq)
    vpc = PathCond(vcfg)
    ex = vpc.reach(vcfg.exit).drop_unused()
    inn = [a for a in ex.atoms if a == f"{vt.params[0]} in VALID_RELEASE_TAG_VALUES"]
    non = [a for a in ex.atoms if a == f"{vt.params[0]} is None"]
    ok = len(inn) == 1 and len(non) == 1 and ex.equiv(BF.var(non[0]) | BF.var(inn[0]))
    ctx.check("R6", ok, "_validate_release_tag returns only for None or an accepted value", "cli._validate_release_tag: accepts other tag values", ex.to_dnf(), loc=vt.loc())
    for root in ("cli.test", "cli.update"):
        shapes.check_passthrough(ctx, "R6", root, "cli._validate_release_tag", {vt.params[0]: "tag"})
    validate_flags_eval(ctx, "R6")
    # ... and it is asked about the flags that were given: each call hands on its caller's own major / minor / patch under the
    # parameter of the same name, and the pattern that the bump is computed with
    vf = prog.function("cli._validate_flags")
    vf_calls = [(f_, c_) for f_ in prog.all_functions() if f_.fq.startswith("cli.") for c_ in shapes.find_calls(prog, f_, vf.fq)]
    ctx.floor("R6", "calls of cli._validate_flags", len(vf_calls), 1)
    for f_, c_ in vf_calls:
        wired = {p_: unparse(call_arg(c_, vf, p_) or ast.Constant(None)) for p_ in vf.params}
        flags_ok = all(wired.get(p_) == p_ for p_ in ("major", "minor", "patch") if p_ in vf.params)
        disp = shapes.find_calls(prog, f_, "cli.incr_dispatch")
        pat_ok = not disp or all(unparse(call_arg(d_, prog.function("cli.incr_dispatch"), "raw_pattern") or ast.Constant(None)) == wired.get(vf.params[0]) for d_ in disp)
        ctx.check("R6", flags_ok and pat_ok, f"{f_.fq}: _validate_flags(<the bump's pattern>, major, minor, patch)",
                  f"{f_.fq}: the part flags are validated under another name (or against another pattern) than they are used",
                  f"`{unparse(c_)}` binds {wired}: a flag the pattern supports is refused, one it does not support goes through", loc=f_.loc(c_),
                  witness={"command": "bumpver test 2020.3 YYYY.MINOR --minor"})


def _fold_cal_gt(ctx, eng: str) -> T.Optional[T.List[str]]:
    """Decide <eng>._is_cal_gt by folding its body: every single field with both values in {None, 0, 1, 2}, every pair of
    fields with values in {None, 0, 1}, all other fields None.  Expected: the values of the fields that are not None on both
    sides, in declared order, compared with `>` (lexicographic, strict).  Returns the deviating cases, or None if the body
    cannot be folded."""
    import itertools
    import types
    from sa.model import CannotFold
    prog = ctx.prog
    gt = prog.function(f"{eng}._is_cal_gt")
    klass = "V2CalendarInfo" if eng == "v2version" else "V1CalendarInfo"
    fields = list(prog.klass(f"version.{klass}").fields)
    if len(gt.params) < 2:
        return None
    vmod = types.SimpleNamespace(**{klass: types.SimpleNamespace(_fields=tuple(fields))})

    def run(lv: T.Dict[str, T.Any], rv: T.Dict[str, T.Any]) -> bool:
        env: T.Dict[str, T.Any] = {gt.params[0]: types.SimpleNamespace(**lv), gt.params[1]: types.SimpleNamespace(**rv), "version": vmod}
        ret, _ys = prog.run_body(gt, env)
        if not isinstance(ret, bool):
            raise CannotFold("_is_cal_gt does not return a bool")
        return ret

    def spec(lv: T.Dict[str, T.Any], rv: T.Dict[str, T.Any]) -> bool:
        both = [f for f in fields if lv[f] is not None and rv[f] is not None]
        return [lv[f] for f in both] > [rv[f] for f in both]
    wrong: T.List[str] = []
    none = {f: None for f in fields}
    try:
        for f in fields:
            for a, b in itertools.product((None, 0, 1, 2), repeat=2):
                lv, rv = dict(none, **{f: a}), dict(none, **{f: b})
                if run(lv, rv) != spec(lv, rv):
                    wrong.append(f"{f}: left {a!r}, right {b!r} -> {run(lv, rv)}")
        for f, g in itertools.combinations(fields, 2):
            for a, b, c, d in itertools.product((None, 0, 1), repeat=4):
                lv, rv = dict(none, **{f: a, g: c}), dict(none, **{f: b, g: d})
                if run(lv, rv) != spec(lv, rv):
                    wrong.append(f"({f}, {g}): left ({a!r}, {c!r}), right ({b!r}, {d!r}) -> {not spec(lv, rv)}")
                    break
    except (CannotFold, TypeError, AttributeError, KeyError, ValueError, IndexError):
        return None
    return wrong


def none_filter_rule(ctx, eng: str, rule: str) -> bool:
    """<eng>._is_cal_gt: a field takes part in the comparison iff it is not None on both sides (0 is a value); the result
    is the strict lexicographic `>` over the declared field order.  Returns True when decided by folding (any spelling)."""
    prog, cfgs = ctx.prog, ctx.cfgs
    gt = prog.function(f"{eng}._is_cal_gt")
    ctx.visit(gt.fq)
    wrong = _fold_cal_gt(ctx, eng)
    if wrong is not None:
        zero = [w for w in wrong if " 0" in w or "(0" in w]
        ctx.check(rule, not wrong, f"{eng}._is_cal_gt == (values of the fields set on both sides, in declared order: left > right), folded for every field and field pair over {{None, 0, 1, 2}}",
                  f"{eng}._is_cal_gt: fields are filtered by truthiness (a calendar value of 0, e.g. week 0, is dropped from the future guard)" if zero and len(zero) == len(wrong)
                  else f"{eng}._is_cal_gt: comparison is not `left > right` over the fields set on both sides, in declared order",
                  "; ".join(wrong[:3]), loc=gt.loc(), witness={"old": "2021.05.3", "pattern": "YYYY.0W.INC0", "date": "2021-01-02", "cases": wrong[:4]})
        return True
    # a field takes part in the comparison iff it is not None on both sides (0 is a value: week 0)
    gcfg = cfgs.get(gt.fq)
    gpc = PathCond(gcfg)
    apps = [n for n in gcfg.nodes if n.kind == "stmt" and isinstance(n.ast, ast.Expr) and isinstance(n.ast.value, ast.Call)
            and isinstance(n.ast.value.func, ast.Attribute) and n.ast.value.func.attr == "append" and n.id in gcfg.reachable()]
    ctx.require(len(apps) == 2, f"{eng}._is_cal_gt: expected two append statements")
    for n in apps:
        var = unparse(n.ast.value.args[0])
        r = gpc.reach(n.id).drop_unused()
        nones = [a for a in r.atoms if a.endswith(" is None")]
        ok = len(nones) == 2 and set(r.atoms) == set(nones) and r.equiv(~BF.var(nones[0]) & ~BF.var(nones[1]))
        ctx.check(rule, ok, f"{eng}._is_cal_gt: `{var}` is compared iff neither side is None", f"{eng}._is_cal_gt: fields are filtered by truthiness (a calendar value of 0, e.g. week 0, is dropped from the future guard)",
                  f"`{var}` collected when {r.to_dnf()}", loc=gt.loc(n.ast), witness={"old": "2021.05.3", "pattern": "YYYY.0W.INC0", "date": "2021-01-02"})
    # the result is `<values of the left argument> > <values of the right argument>`
    lists = {}
    for n in apps:
        lst = unparse(n.ast.value.func.value)
        src = shapes.inline(gt, n.ast.value.args[0], prog, consts=False)
        side = None
        if isinstance(src, ast.Call) and unparse(src.func) == "getattr" and len(src.args) >= 2:
            side = unparse(src.args[0])
        lists[lst] = side
    rets = [n for n in walk_no_nested(gt.node) if isinstance(n, ast.Return)]
    ok = len(rets) == 1 and isinstance(rets[0].value, ast.Compare) and len(rets[0].value.ops) == 1
    if ok:
        cmp_ = rets[0].value
        l, r = unparse(cmp_.left), unparse(cmp_.comparators[0])
        if isinstance(cmp_.ops[0], ast.Lt):
            l, r = r, l
        elif not isinstance(cmp_.ops[0], ast.Gt):
            ok = False
        ok = ok and lists.get(l) == gt.params[0] and lists.get(r) == gt.params[1]
    ctx.check(rule, ok, f"{eng}._is_cal_gt returns <collected left values> > <collected right values> (lexicographic, strict)",
              f"{eng}._is_cal_gt: comparison is not `left > right`", unparse(rets[0]) if rets else "", loc=gt.loc())
    return False


def incr_numeric_eval(ctx) -> T.Optional[T.List[str]]:
    """v2version._incr_numeric evaluated on an abstract version record for every combination of --major / --minor / --patch /
    --tag-num / --pin-increments, three --tag cases (none, the current tag, another tag) and five build ids (four digits, three
    digits with a leading zero, one digit, 0999, 01000): each flag adds 1 to its own field and to nothing else, --tag sets tag and pytag and
    restarts NUM when the tag changes, INC0 / INC1 advance unless pinned, the build id is padded below 1000 and always replaced
    by its lexid successor, and the result is what _reset_rollover_fields makes of (raw_pattern, old record, that record).
    Returns the mismatches, None when the body is outside what the evaluator handles."""
    import itertools
    from sa.model import Abstract, CannotFold, EvalError
    prog = ctx.prog
    inc = prog.function("v2version._incr_numeric")
    names = prog.klass("version.V2VersionInfo").fields
    t2p = prog.const("version", "PEP440_TAG_BY_TAG")
    want_params = ["raw_pattern", "old_vinfo", "cur_vinfo", "major", "minor", "patch", "tag", "tag_num", "pin_increments"]
    if inc.params != want_params:
        # renamed parameters are undone by the normaliser; another signature is not this function any more
        if len(inc.params) != len(want_params):
            return None

    class Rec(Abstract):
        def __init__(self, d: T.Dict[str, T.Any]):
            self.__dict__["d"] = dict(d)

        def __getattr__(self, k: str) -> T.Any:
            try:
                return self.__dict__["d"][k]
            except KeyError:
                raise AttributeError(k)

        def _asdict(self) -> T.Dict[str, T.Any]:
            return dict(self.d)

        def _replace(self, **kw: T.Any) -> "Rec":
            if set(kw) - set(self.d):
                raise ValueError(f"unexpected field names {sorted(set(kw) - set(self.d))}")
            return Rec(dict(self.d, **kw))
    base = {n_: None for n_ in names}
    base.update({"year_y": 2020, "major": 3, "minor": 4, "patch": 5, "num": 2, "inc0": 7, "inc1": 8, "tag": "rc", "pytag": "rc"})
    wrong: T.List[str] = []
    n = 0
    try:
        p = inc.params
        for major, minor, patch, tag_num, pin in itertools.product((False, True), repeat=5):
            for tag in (None, "rc", "beta"):
                for bid in ("1001", "0998", "7", "0999", "01000", "09999"):
                    old = Rec(dict(base, bid=bid))
                    cur = Rec(dict(base, bid=bid, year_y=2021))
                    seen: T.List[T.Any] = []

                    def reset(f: T.Any, node: ast.Call, seen: T.List[T.Any] = seen) -> T.Any:
                        a_ = [f(x) for x in node.args] + [f(k.value) for k in node.keywords]
                        seen.append(a_)
                        return a_[-1]
                    env = dict(zip(p, ("PATTERN", old, cur, major, minor, patch, tag, tag_num, pin)))
                    env.update({"__strict__": True, "__stubs__": {"_reset_rollover_fields": reset, "lexid.next_id": lambda f, node: "next(" + str(f(node.args[0])) + ")"}})
                    try:
                        got, _ys = prog.run_body(inc, env)
                        got_d = got._asdict() if isinstance(got, Rec) else got
                    except EvalError as ex:
                        got_d = f"raises: {ex}"
                    want = dict(cur.d)
                    for fld, flag in (("major", major), ("minor", minor), ("patch", patch), ("num", tag_num)):
                        if flag:
                            want[fld] += 1
                    if tag:
                        if tag != cur.d["tag"]:
                            want["num"] = 0
                        want["tag"], want["pytag"] = tag, t2p[tag]
                    if not pin:
                        want["inc0"] += 1
                        want["inc1"] += 1
                    padded = bid if int(bid) >= 1000 else str(int(bid) + 1000)
                    want["bid"] = "next(" + padded + ")"
                    n += 1
                    # ... and it is the finished record that goes through the reset (nothing is changed after it)
                    given = seen[0][2]._asdict() if len(seen) == 1 and len(seen[0]) == 3 and isinstance(seen[0][2], Rec) else None
                    ok = got_d == want and len(seen) == 1 and seen[0][0] == "PATTERN" and seen[0][1] is old and given == want
                    if not ok and len(wrong) < 3:
                        flags = [k for k, v in (("--major", major), ("--minor", minor), ("--patch", patch), ("--tag-num", tag_num), ("--pin-increments", pin)) if v] + ([f"--tag {tag}"] if tag else [])
                        diff = {k: (got_d.get(k), v) for k, v in want.items() if got_d.get(k) != v} if isinstance(got_d, dict) else got_d
                        wrong.append(f"{' '.join(flags) or 'no flag'}, build id {bid}: {diff if diff else 'the result does not go through _reset_rollover_fields(raw_pattern, old_vinfo, <bumped record>)'} (got, expected)")
    except (CannotFold, TypeError, AttributeError, KeyError, ValueError, IndexError) as ex:
        ctx.observe(f"{inc.fq} not evaluated ({type(ex).__name__}: {str(ex)[:80]})")
        return None
    ctx.notes["incr_numeric_cases"] = n
    return wrong


def reset_rollover_eval(ctx, rule: str) -> None:
    """v2version._reset_rollover_fields evaluated on abstract version records: the result is the *current* record (the one that
    carries the increments and the new calendar) in which every field that has an initial value and stands right of a changed
    field holds that initial value - nothing else differs."""
    from sa.model import Abstract, CannotFold, EvalError
    prog = ctx.prog
    rr = prog.function("v2version._reset_rollover_fields")
    ctx.visit(rr.fq)
    init = prog.const("version", "V2_FIELD_INITIAL_VALUES")
    names = prog.klass("version.V2VersionInfo").fields

    class Rec(Abstract):
        def __init__(self, d: T.Dict[str, T.Any]):
            self.__dict__["d"] = dict(d)

        def __getattr__(self, k: str) -> T.Any:
            try:
                return self.__dict__["d"][k]
            except KeyError:
                raise AttributeError(k)

        def _asdict(self) -> T.Dict[str, T.Any]:
            return dict(self.d)

        def _replace(self, **kw: T.Any) -> "Rec":
            if set(kw) - set(self.d):
                raise ValueError(f"unexpected field names {sorted(set(kw) - set(self.d))}")
            return Rec(dict(self.d, **kw))

    def ctor(f: T.Any, node: ast.Call) -> Rec:
        d = dict(zip(names, [f(a) for a in node.args]))
        for k in node.keywords:
            if k.arg is None:
                d.update(f(k.value))
            else:
                d[k.arg] = f(k.value)
        return Rec(d)
    base = {n_: None for n_ in names}
    base.update({"year_y": 2020, "quarter": 1, "month": 3, "major": 3, "minor": 4, "patch": 5, "num": 2, "inc0": 7, "inc1": 8, "bid": "1001", "tag": "rc", "pytag": "rc"})
    cases = [(["year_y", "major", "bid"], {"year_y": 2021, "bid": "1002"}), (["major", "minor", "patch"], {"patch": 6}), (["major", "minor", "patch", "num"], {"major": 4}),
             (["year_y", "quarter", "patch", "inc0", "inc1"], {"quarter": 2, "inc0": 8, "inc1": 9}), (["inc0", "inc1"], {"inc0": 8, "inc1": 9}), (["major", "bid"], {"bid": "1002"})]
    wrong: T.List[str] = []
    n = 0
    try:
        for order, changes in cases:
            old, cur = Rec(base), Rec(dict(base, **changes))
            env = {rr.params[0]: "PATTERN", rr.params[1]: old, rr.params[2]: cur, "__strict__": True, "__calls__": True,
                   "__stubs__": {"_parse_pattern_fields": lambda f, node, order=order: list(order), "version.V2VersionInfo": ctor}}
            try:
                got, _ys = prog.run_body(rr, env)
                got_d = got._asdict() if isinstance(got, Rec) else got
            except EvalError as ex:
                got_d = f"raises: {ex}"
            want = dict(cur.d)
            seen_change = False
            for fld in order:
                iv = init.get(fld)
                if seen_change and iv is not None:
                    want[fld] = int(iv) if iv.isdigit() else iv
                elif base[fld] != cur.d[fld]:
                    seen_change = True
            n += 1
            if got_d != want and len(wrong) < 3:
                diff = {k: (got_d.get(k), v) for k, v in want.items() if got_d.get(k) != v} if isinstance(got_d, dict) else got_d
                wrong.append(f"pattern fields {order}, changed {changes}: {diff} (got, expected)")
    except (CannotFold, TypeError, AttributeError, KeyError, ValueError, IndexError) as ex:
        ctx.observe(f"{rr.fq} not evaluated ({type(ex).__name__}: {str(ex)[:80]})")
        return
    ctx.check(rule, not wrong, f"_reset_rollover_fields: the current record with the fields right of a change reset to their initial values, nothing else ({n} cases evaluated)",
              "v2version._reset_rollover_fields: the result is not the bumped record with the parts right of a change reset",
              "; ".join(wrong[:2]) + ": the increments / the new calendar are lost, or a part that must restart keeps its value", loc=rr.loc(),
              witness={"command": "bumpver test 2020.3.1001 YYYY.MAJOR.BUILD --date 2021-02-03", "expected": "2021.0.1002"})


def field_order_rule(ctx, rule: str) -> bool:
    """_parse_pattern_fields evaluated on four segment lists: the fields of a pattern in the order of the first occurrence of
    each part, segment by segment, left to right (a part used twice counts where it stands first)."""
    from sa.model import CannotFold, EvalError
    prog = ctx.prog
    pf = prog.function("v2version._parse_pattern_fields")
    ctx.visit(pf.fq)
    tab = prog.const("v2patterns", "PATTERN_PART_FIELDS")
    wrong: T.List[str] = []
    n = 0
    try:
        # ... and every part of the table once on its own (the shortest name, `Q`, is the last one a longest-first scan reaches)
        for segments in [["MAJOR.MINOR.PATCH"], ["vYYYY0M.BUILD", "-TAG"], ["YY.MAJOR.YYYY"], ["YYYY.", "INC0", ".BUILD-YYYY"], ["YYYY.Q.PATCH"]] + [[f"<{p_}>"] for p_ in tab]:
            env = {pf.params[0]: "".join(segments), "__strict__": True,
                   "__stubs__": {"_parse_segtree": lambda f, node: "SEGTREE", "_iter_flat_segtree": lambda f, node, segments=segments: list(segments)}}
            try:
                got, _ys = prog.run_body(pf, env)
            except EvalError as ex:
                got = f"raises: {ex}"
            by_index = {}
            for si, seg in enumerate(segments):
                for part, field in tab.items():
                    i = seg.find(part)
                    if i >= 0:
                        # the longest part name that starts at an index is the one written there
                        if (si, i) not in by_index or len(part) > by_index[si, i][0]:
                            by_index[si, i] = (len(part), field)
            want = [f for _k, (_l, f) in sorted(by_index.items())]
            n += 1
            if got != want:
                wrong.append(f"segments {segments}: {got}, expected {want}")
    except (CannotFold, TypeError, AttributeError, KeyError, ValueError, IndexError) as ex:
        ctx.observe(f"_parse_pattern_fields not evaluated ({type(ex).__name__}: {str(ex)[:80]})")
        return False
    ctx.check(rule, not wrong, f"_parse_pattern_fields: fields in the order the parts stand in the pattern ({n} patterns evaluated)",
              "v2version._parse_pattern_fields: the reset order is not the left-to-right order of the parts", "; ".join(wrong[:2]) + " - a part right of a changed part is not reset",
              loc=pf.loc(), witness={"version": "25.3.2025", "pattern": "YY.MAJOR.YYYY"})
    return True


def validate_flags_eval(ctx, rule: str) -> None:
    """cli._validate_flags evaluated for four patterns x the eight combinations of --major/--minor/--patch: it ends the process
    (non-zero) exactly when the pattern is new-style and a given flag names a part the pattern does not have."""
    import itertools
    from sa.model import CannotFold, EvalError
    prog = ctx.prog
    fn = prog.function("cli._validate_flags")
    ctx.visit(fn.fq)

    class Exit(Exception):
        def __init__(self, code: T.Any):
            self.code = code

    def sys_exit(f: T.Any, node: ast.Call) -> None:
        raise Exit(f(node.args[0]) if node.args else 0)
    wrong: T.List[str] = []
    n = 0
    try:
        for pat in ("MAJOR.MINOR.PATCH", "YYYY.BUILD", "MAJOR.MINOR[-TAG]", "{semver}", "v{year}{build}"):
            for major, minor, patch in itertools.product((False, True), repeat=3):
                env = dict(zip(fn.params, (pat, major, minor, patch)))
                env.update({"__strict__": True, "__stubs__": {"sys.exit": sys_exit}})
                try:
                    prog.run_body(fn, env)
                    got = None
                except Exit as ex:
                    got = ex.code
                except EvalError as ex:
                    got = f"raises: {ex}"
                legacy = "{" in pat and "}" in pat
                want_exit = (not legacy) and ((major and "MAJOR" not in pat) or (minor and "MINOR" not in pat) or (patch and "PATCH" not in pat))
                n += 1
                ok = (got not in (None, 0, False)) if want_exit else (got is None)
                if not ok:
                    wrong.append(f"{pat!r} with major={major}, minor={minor}, patch={patch}: {'returns' if got is None else 'exit ' + str(got)}")
    except (CannotFold, TypeError, AttributeError, KeyError, ValueError, IndexError) as ex:
        ctx.observe(f"cli._validate_flags not evaluated ({type(ex).__name__}: {str(ex)[:80]})")
        return
    ctx.check(rule, not wrong, f"_validate_flags rejects exactly the part flags the pattern cannot apply ({n} pattern x flag combinations evaluated)",
              "cli._validate_flags: an inapplicable --major/--minor/--patch is not rejected (or an applicable one is)", "; ".join(wrong[:3]), loc=fn.loc(),
              witness={"command": "bumpver test 2020.1001 YYYY.BUILD --major"})
