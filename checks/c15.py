"""C15 - {pep440_version} always denotes the same version as {version} (table agreements)."""
from __future__ import annotations

import ast
import re
import typing as T

try:
    import re._parser as sre_parse
except ImportError:  # pragma: no cover
    import sre_parse  # type: ignore

from sa import formats, relang as rl, shapes
from sa import shapes
from sa.model import AnalysisError, const_str, unparse, walk_no_nested

TECHNIQUE = "table agreement: bumpver's tag map vs. the vendored comparator's letter normalisation (extracted from its if-chain and regex groups); language tests on formatter images"
EXPLANATION = (
    "_convert_to_pep440 is string surgery on runtime patterns; equality of the two renderings for all patterns and values is "
    "NOT decided.  Decided are the table agreements without which the two renderings must differ: (R1) for every tag, "
    "PEP440_TAG_BY_TAG agrees with the normal form the vendored _parse_letter_version gives that spelling, every spelling is "
    "accepted by the comparator's regex groups, and the short forms are PEP 440's; (R2) every substitution in "
    "PEP440_PART_SUBSTITUTIONS stays within one field and its target never prints a leading zero; (R3) every numeric part "
    "whose formatter can print a leading zero has a substitution; (R4) the derived [PYTAGNUM] suffix recognises every "
    "short tag + number; (R5) the 'v' prefix and separators are stripped and to_pep440 is str(parse_version(v))."
)
LEVEL_NOTE = "PARTIAL: decides table agreement and derivation constants, not the rendering equality for all patterns/values."

PEP440_SHORT = {"a", "b", "rc", "post", "dev", ""}


def letter_normalisation(ctx) -> T.Dict[str, str]:
    fn = ctx.prog.function("setuptools_v65_version._parse_letter_version")
    ctx.visit(fn.fq)
    p = fn.params[0]
    out: T.Dict[str, str] = {}
    n_branches = 0
    for n in ast.walk(fn.node):
        if not isinstance(n, ast.If):
            continue
        t = n.test
        # the spelling is held by the parameter itself or by a local derived from it (`x = letter.lower()`)
        holders = {p} | {unparse(tg) for _s, tg, v in shapes.iter_assigns(fn.node)
                         if isinstance(tg, ast.Name) and isinstance(v, ast.Call) and isinstance(v.func, ast.Attribute) and v.func.attr in ("lower", "casefold") and unparse(v.func.value) == p}
        if not (isinstance(t, ast.Compare) and len(t.ops) == 1 and unparse(t.left) in holders):
            continue
        if not (len(n.body) == 1 and isinstance(n.body[0], ast.Assign) and isinstance(n.body[0].targets[0], ast.Name) and isinstance(n.body[0].value, ast.Constant)):
            continue
        dst = n.body[0].value.value
        if isinstance(t.ops[0], ast.Eq) and isinstance(t.comparators[0], ast.Constant):
            out[t.comparators[0].value] = dst
            n_branches += 1
        elif isinstance(t.ops[0], ast.In) and isinstance(t.comparators[0], (ast.List, ast.Tuple, ast.Set)):
            for e in t.comparators[0].elts:
                ctx.require(isinstance(e, ast.Constant), "_parse_letter_version: non-constant spelling")
                out[e.value] = dst
            n_branches += 1
    # table form: `letter = TABLE.get(letter, letter)` with a constant dict
    for _s, tg, v in shapes.iter_assigns(fn.node):
        if isinstance(v, ast.Call) and isinstance(v.func, ast.Attribute) and v.func.attr == "get" and len(v.args) == 2 and unparse(v.args[0]) == unparse(v.args[1]) \
                and unparse(v.args[0]) in ({p} | {unparse(t_) for _s2, t_, v2 in shapes.iter_assigns(fn.node) if isinstance(v2, ast.Call) and isinstance(v2.func, ast.Attribute) and v2.func.attr in ("lower", "casefold")}):
            try:
                tab = ctx.prog.fold(fn.module, v.func.value)
            except AnalysisError:
                continue
            if isinstance(tab, dict) and all(isinstance(k_, str) and isinstance(x_, str) for k_, x_ in tab.items()):
                out.update(tab)
                n_branches += len(set(tab.values()))
    ctx.floor("R1", "normalisation branches in _parse_letter_version", n_branches, 4)
    return out


def comparator_letters(ctx) -> T.Dict[str, T.Set[str]]:
    pat = ctx.prog.const("setuptools_v65_version", "VERSION_PATTERN")
    tree = sre_parse.parse(pat, re.VERBOSE | re.IGNORECASE)
    names = {v: k for k, v in tree.state.groupdict.items()}
    out: T.Dict[str, T.Set[str]] = {}

    def walk(seq: T.Any) -> None:
        for op, av in seq:
            nm = str(op)
            if nm == "SUBPATTERN":
                gid, _a, _d, sub = av
                if gid is not None and names.get(gid) in ("pre_l", "post_l", "dev_l"):
                    words, complete = rl.enumerate_language(rl._conv(sub, 0, "error"), max_len=10)
                    ctx.require(complete, f"group {names[gid]} is not a finite language")
                    out[names[gid]] = set(words)
                walk(sub)
            elif nm == "BRANCH":
                for b in av[1]:
                    walk(b)
            elif nm in ("MAX_REPEAT", "MIN_REPEAT"):
                walk(av[2])
    walk(tree)
    ctx.require(set(out) == {"pre_l", "post_l", "dev_l"}, f"VERSION_PATTERN letter groups not found: {sorted(out)}")
    return out


def to_pep440_rule(ctx, rule: str) -> None:
    """version.to_pep440(v) is str(parse_version(v)): the comparator's canonical string, local label included."""
    prog = ctx.prog
    tp = prog.function("version.to_pep440")
    ctx.visit(tp.fq)
    rets = [n for n in walk_no_nested(tp.node) if isinstance(n, ast.Return)]
    val = unparse(shapes.inline(tp, rets[0].value, prog)) if len(rets) == 1 and rets[0].value is not None else ""
    ok = val in (f"str(parse_version({tp.params[0]}))", f"parse_version({tp.params[0]}).__str__()", f"f'{{parse_version({tp.params[0]})}}'")
    ctx.check(rule, ok, "to_pep440(v) == str(parse_version(v))", "version.to_pep440 is not the comparator's canonical string",
              f"`{val}`: e.g. `.public` / `.base_version` drop the local label or the pre-release segment, so distinct versions print alike and the output is not the canonical form",
              loc=tp.loc(), witness={"version": "1.0+ubuntu.1"})


def run(ctx) -> None:
    prog = ctx.prog
    ctx.rule("R1", "PEP440_TAG_BY_TAG[t] == comparator's normal form of t; every spelling accepted by the comparator; values are PEP 440 short forms")
    ctx.rule("R2", "each substitution stays within a field and its target prints no leading zero")
    ctx.rule("R3", "every numeric part that can print a leading zero has a substitution")
    ctx.rule("R4", "[PYTAGNUM] recognises every short tag followed by a number")
    ctx.rule("R6", "prerequisite: the parts of the derived pattern read back what is rendered for them (C02/R1-R3): a derived search pattern that stops short of its occurrence leaves the rest of the old text behind")
    from sa.report import run_prerequisite
    run_prerequisite(ctx, "C02", ("R1", "R2", "R3"), "R6")
    # "the text written for {pep440_version}": written by the rewrite, next to a {version} occurrence on the same line as well
    run_prerequisite(ctx, "C03", ("R1", "R2", "R3", "R4"), "R6")
    ctx.rule("R7", "prerequisite: the PEP440 value printed by test/show is the comparator's canonical string (C16/R7)")
    run_prerequisite(ctx, "C16", ("R7",), "R7")
    ctx.rule("R8", "prerequisite: in the legacy engine what is rendered for {pep440_version} / {pep440_pycalver} / {pep440_tag} is accepted by its search pattern (C20/R1, those parts only)")
    run_prerequisite(ctx, "C20", ("R1",), "R8", only=lambda key: "pep440" in key)
    ctx.rule("R5", "derivation constants: 'v' stripped, separators stripped, PYTAGNUM appended; to_pep440 = str(parse_version(v))")

    t2p = prog.const("version", "PEP440_TAG_BY_TAG")
    p2t = prog.const("version", "TAG_BY_PEP440_TAG")
    norm = letter_normalisation(ctx)
    letters = comparator_letters(ctx)
    all_letters = set().union(*letters.values())
    ctx.floor("R1", "tag spellings", len(t2p), 3)
    # every release tag the TAG part can read has a PEP 440 form in the table (otherwise {pep440_version} cannot denote it)
    from sa import relang as _rl
    _pats = prog.const("v2patterns", "PART_PATTERNS")
    _lang, _complete = _rl.enumerate_language(_rl.from_regex(_pats["TAG"]), max_len=12)
    ctx.require(_complete, "TAG regex not finite")
    ctx.check("R1", set(_lang) <= set(t2p), f"every tag text recognised by PART_PATTERNS['TAG'] ({len(_lang)}) is a key of PEP440_TAG_BY_TAG",
              "version.PEP440_TAG_BY_TAG lacks a release tag that the TAG part recognises",
              f"missing {sorted(set(_lang) - set(t2p))}: for such a version {{pep440_version}} is rendered with the raw tag text (or fails), "
              f"which PEP 440 reads as a different version", loc="src/bumpver/version.py", witness={"tag": sorted(set(_lang) - set(t2p))[:1]})
    for t, p in sorted(t2p.items()):
        if t == "final":
            ctx.check("R1", p == "", "final -> '' (no PEP 440 segment)", "version.PEP440_TAG_BY_TAG['final'] is not the empty tag", repr(p), loc="src/bumpver/version.py")
            continue
        want = norm.get(t, t)
        ctx.check("R1", p == want, f"PEP440_TAG_BY_TAG[{t!r}] == {want!r} (what _parse_letter_version makes of it)",
                  f"version.PEP440_TAG_BY_TAG[{t!r}] disagrees with the comparator's normalisation",
                  f"bumpver writes {p!r} for the pep440 form, str(parse_version(..)) prints {want!r}", loc="src/bumpver/version.py", witness={"tag": t, "table": p, "comparator": want})
        ctx.check("R1", t in all_letters, f"{t!r} is a spelling the comparator's regex accepts", f"version.PEP440_TAG_BY_TAG key {t!r} is not a PEP 440 letter (version falls back to LegacyVersion)",
                  f"accepted: {sorted(all_letters)}", loc="src/bumpver/version.py")
    ctx.check("R1", set(t2p.values()) <= PEP440_SHORT, "values(PEP440_TAG_BY_TAG) ⊆ {a, b, rc, post, dev, ''}", "version.PEP440_TAG_BY_TAG has a value that is not a PEP 440 short form",
              f"{sorted(set(t2p.values()) - PEP440_SHORT)}", loc="src/bumpver/version.py")
    for p, t in sorted(p2t.items()):
        ctx.check("R1", t2p.get(t) == p, f"TAG_BY_PEP440_TAG[{p!r}] = {t!r} maps back to {p!r}", "version.TAG_BY_PEP440_TAG is not a right inverse of PEP440_TAG_BY_TAG",
                  f"{p!r} -> {t!r} -> {t2p.get(t)!r}", loc="src/bumpver/version.py")

    # ---------------------------------------------------------------- R2 / R3
    from checks.c02 import field_domains, part_tables, TWO_DIGIT_YEAR_PARTS
    pats, fields, fmts = part_tables(ctx)
    doms = field_domains(ctx, pats)
    subs = prog.const("v2patterns", "PEP440_PART_SUBSTITUTIONS")
    ctx.floor("R2", "substitutions", len(subs), 8)
    canonical = rl.from_regex("0|[1-9][0-9]*")
    lead0 = rl.to_dfa(rl.from_regex("0[0-9]+"))

    def image_of(part: str) -> T.Optional[rl.R]:
        fld = fields[part]
        dom, _prov = doms[fld]
        if part in TWO_DIGIT_YEAR_PARTS:
            dom = ("ints", 2001, 2099)
        if dom[0] in ("strings", "lang"):
            return None
        return formats.image(formats.describe_formatter(fmts[part]), dom)

    for k, v in sorted(subs.items()):
        ctx.require(k in fields and v in fields, f"substitution {k}->{v} names an unknown part")
        same = fields[k] == fields[v] or (k, v) == ("TAG", "PYTAG")
        ctx.check("R2", same, f"substitution {k} -> {v} stays within field '{fields[k]}'", f"v2patterns.PEP440_PART_SUBSTITUTIONS['{k}'] changes the field",
                  f"{k}: {fields[k]}, {v}: {fields[v]}", loc="src/bumpver/v2patterns.py")
        img = image_of(v)
        if img is not None:
            w = rl.included(img, canonical)
            ctx.check("R2", w is None, f"substitution target {v} never prints a leading zero", f"v2patterns.PEP440_PART_SUBSTITUTIONS['{k}'] -> '{v}' still prints leading zeros",
                      f"{v} can print {w!r}", loc="src/bumpver/v2patterns.py", witness=w)
    n_pad = 0
    for part in sorted(pats):
        img = image_of(part)
        if img is None:
            continue
        strings_with_lead0 = _intersects(img, lead0)
        if strings_with_lead0 is None:
            continue
        n_pad += 1
        ctx.check("R3", part in subs, f"zero-padding part {part} (prints e.g. {strings_with_lead0!r}) has a PEP 440 substitution",
                  f"v2patterns.PEP440_PART_SUBSTITUTIONS lacks the zero-padding part '{part}'",
                  f"part {part} prints {strings_with_lead0!r}; after a dot the derived {{pep440_version}} pattern keeps the padding while "
                  f"to_pep440 / PEP 440 normalisation drops it (e.g. 'MAJOR.{part}' renders 1.09, PEP440 is 1.9)", loc="src/bumpver/v2patterns.py",
                  witness={"pattern": f"MAJOR.{part}", "rendered": f"1.{strings_with_lead0}"})
    ctx.floor("R3", "zero-padding parts", n_pad, 8)

    # ---------------------------------------------------------------- R4
    shorts = sorted(PEP440_SHORT - {""})
    lang, complete = rl.enumerate_language(rl.from_regex(pats["PYTAG"]), max_len=8)
    ctx.check("R4", complete and set(lang) == set(shorts), "L(PYTAG) == {a, b, rc, post, dev}", "v2patterns.PART_PATTERNS['PYTAG'] is not the set of PEP 440 short tags",
              f"{sorted(lang)}", loc="src/bumpver/v2patterns.py")
    w = rl.included(rl.Cat([rl.alt_of_strings(shorts), rl.Rep(rl.Cls(rl.DIGITS), 1, None)]),
                    rl.Cat([rl.from_regex(pats["PYTAG"]), rl.from_regex(pats["NUM"])]))
    ctx.check("R4", w is None, "(a|b|rc|post|dev)[0-9]+ ⊆ L(PYTAG)·L(NUM)", "v2patterns: [PYTAGNUM] does not recognise a short tag with number", f"{w!r}", loc="src/bumpver/v2patterns.py")
    for p in shorts:
        good = rl.python_prefix_match_end(pats["PYTAG"], p) == len(p)
        ctx.check("R4", good, f"PYTAG alternation consumes all of {p!r}", "v2patterns.PART_PATTERNS['PYTAG']: alternation order truncates a tag", p, loc="src/bumpver/v2patterns.py")

    # ---------------------------------------------------------------- R5
    cv = prog.function("v2patterns._convert_to_pep440")
    ctx.visit(cv.fq)
    # a part whose name is contained in its own substitution (TAG in PYTAG) must not be substituted where the substitution
    # is already present: every replace site that can run for such a part is guarded by `substitution in <pattern>` -> skip
    subs_tab = prog.const("v2patterns", "PEP440_PART_SUBSTITUTIONS")
    self_containing = sorted(p_ for p_, s_ in subs_tab.items() if p_ in s_)
    from sa.pathcond import PathCond as _PC
    from sa.boolfn import BF as _BF
    cvg = ctx.cfgs.get(cv.fq)
    cvpc = _PC(cvg)
    rsites = [n for n in cvg.nodes if n.kind == "stmt" and isinstance(n.ast, ast.Assign) and isinstance(n.ast.value, ast.Call) and isinstance(n.ast.value.func, ast.Attribute)
              and n.ast.value.func.attr == "replace" and len(n.ast.value.args) == 2 and all(isinstance(a_, ast.Name) for a_ in n.ast.value.args) and n.id in cvg.reachable()]
    ctx.floor("R5", "table-driven replace sites in _convert_to_pep440", len(rsites), 1)
    if self_containing:
        for n in rsites:
            part_v, subst_v = (a_.id for a_ in n.ast.value.args)
            r = cvpc.reach(n.id).drop_unused()
            guard = [a_ for a_ in r.atoms if a_.replace(" ", "") == f"{subst_v}in{unparse(n.ast.value.func.value)}".replace(" ", "")]
            numeric_only = [a_ for a_ in r.atoms if shapes.inline_text(cv, ast.parse(a_, mode="eval").body, prog).replace('"', "'").startswith(f"{part_v} not in (")
                            and all(t in shapes.inline_text(cv, ast.parse(a_, mode="eval").body, prog) for t in self_containing) and r.implies(_BF.var(a_))]
            guarded = bool(guard) and r.implies(~_BF.var(guard[0]))
            ctx.check("R5", guarded or bool(numeric_only), f"_convert_to_pep440 L{n.lineno}: `{unparse(n.ast.value)}` never runs for {self_containing} when the substitution is already present",
                      "v2patterns._convert_to_pep440: a part contained in its own substitution is substituted again",
                      f"`{unparse(n.ast)}` can run for {self_containing} although the pattern already contains the substitution: PYTAGNUM becomes PYPYTAGNUM and "
                      f"`{{pep440_version}}` is written as e.g. 1.2.4PYrc0", loc=cv.loc(n.ast), witness={"version_pattern": "MAJOR.MINOR.PATCH[PYTAGNUM]"})
    # a numeric part loses its zero padding exactly where PEP 440 drops leading zeros: at the start of a release component
    # (first in the pattern, or right after a dot).  The guard of the numeric replace site is folded over
    # position {0, 1, 2} x preceding character {'.', other} x last character {'.', other}.
    from sa.model import CannotFold as _CF

    def _parents_of(target: ast.AST) -> T.List[T.Tuple[ast.If, T.List[ast.stmt], bool]]:
        out_: T.List[T.Tuple[ast.If, T.List[ast.stmt], bool]] = []

        def rec(stmts: T.List[ast.stmt], chain: T.List[T.Tuple[ast.If, T.List[ast.stmt], bool]]) -> bool:
            for st_ in stmts:
                if st_ is target:
                    out_.extend(chain)
                    return True
                for fld_ in ("body", "orelse"):
                    sub_ = getattr(st_, fld_, None)
                    if isinstance(sub_, list) and sub_ and isinstance(sub_[0], ast.stmt):
                        if rec(sub_, chain + ([(st_, stmts, fld_ == "body")] if isinstance(st_, ast.If) else [])):
                            return True
            return False
        rec(cv.node.body, [])
        return out_
    n_zero_guards = 0
    for n in rsites:
        chain = [c_ for c_ in _parents_of(n.ast) if not any(isinstance(x_, (ast.Continue, ast.Break)) for x_ in ast.walk(c_[0]))]
        if not chain:
            continue
        part_v = n.ast.value.args[0].id
        pat_v = unparse(n.ast.value.func.value)
        wrong_: T.List[str] = []
        results_: T.List[bool] = []
        try:
            for k_ in (0, 1, 2):
                for prev_ in (".", "x"):
                    for last_ in (".", "x"):
                        text_ = ("x" * max(0, k_ - 1) + prev_ if k_ else "") + "PP" + "y" + last_
                        env_: T.Dict[str, T.Any] = {pat_v: text_, part_v: "PP"}
                        got_ = True
                        for if_, siblings_, in_body_ in chain:
                            for st_ in siblings_[:siblings_.index(if_)]:
                                simple_ = isinstance(st_, ast.Assign) and len(st_.targets) == 1 and isinstance(st_.targets[0], ast.Name) and st_.targets[0].id not in (pat_v, part_v)
                                branchy_ = isinstance(st_, ast.If) and not any(isinstance(x_, (ast.Continue, ast.Break, ast.Return, ast.Raise)) for x_ in ast.walk(st_)) \
                                    and not any(isinstance(x_, ast.Name) and isinstance(x_.ctx, ast.Store) and x_.id in (pat_v, part_v) for x_ in ast.walk(st_))
                                if simple_ or branchy_:
                                    try:
                                        prog._propagate(cv.module, [st_], env_, cv.fq)
                                    except _CF:
                                        for x_ in ast.walk(st_):          # not needed, or the guard itself will not fold
                                            if isinstance(x_, ast.Name) and isinstance(x_.ctx, ast.Store):
                                                env_.pop(x_.id, None)
                            t_ = bool(prog.fold(cv.module, if_.test, env_))
                            got_ = got_ and (t_ if in_body_ else not t_)
                            if not got_:
                                break
                        results_.append(got_)
                        if got_ != (k_ == 0 or prev_ == "."):
                            wrong_.append(f"part at index {k_} of {text_!r}: zero padding {'dropped' if got_ else 'kept'}")
        except _CF as ex_:
            raise AnalysisError(f"_convert_to_pep440: guard of the numeric substitution not foldable ({ex_})")
        if not any(results_):
            continue          # a site that never runs for a numeric part (the tag branch)
        n_zero_guards += 1
        ctx.check("R5", not wrong_, "_convert_to_pep440: a numeric part is replaced by its unpadded form exactly at the start of a release component (12 cases folded)",
                  "v2patterns._convert_to_pep440: zero padding is dropped / kept at the wrong positions",
                  f"site `{unparse(n.ast)}`: {'; '.join(wrong_[:3])} - PEP 440 drops leading zeros per dot-separated component only", loc=cv.loc(n.ast), witness={"cases": wrong_[:4]})
    ctx.floor("R5", "position-dependent (zero truncation) guards in _convert_to_pep440", n_zero_guards, 1)
    src_if = [n for n in walk_no_nested(cv.node) if isinstance(n, ast.If) and "startswith('v')" in unparse(n.test)]
    ok = len(src_if) == 1 and any(isinstance(s, ast.Assign) and unparse(s.value).endswith("[1:]") for s in src_if[0].body)
    ctx.check("R5", ok, "_convert_to_pep440 strips a leading 'v'", "v2patterns._convert_to_pep440: 'v' prefix not stripped", "", loc=cv.loc())
    subn = [c for c in ast.walk(cv.node) if isinstance(c, ast.Call) and unparse(c.func) in ("re.subn", "re.sub")]
    ok = False
    for c in subn:
        pat = const_str(c.args[0])
        if pat and const_str(c.args[1]) == "":
            cls = rl.from_regex(pat)
            keep = set("abcdefghijklmnopqrstuvwxyzABCDEFGHIJKLMNOPQRSTUVWXYZ0123456789.![]")
            removed, _ = rl.enumerate_language(cls, max_len=1)
            ok = set(removed) == set(rl.SIGMA) - keep
    ctx.check("R5", ok, "_convert_to_pep440 removes every character except alphanumerics . ! [ ]", "v2patterns._convert_to_pep440: separator stripping changed", "", loc=cv.loc())
    consts = {n.value for n in ast.walk(cv.node) if isinstance(n, ast.Constant) and isinstance(n.value, str)}
    for n in ast.walk(cv.node):          # constants assembled from parts ("[" + "PYTAGNUM" + "]")
        if isinstance(n, (ast.BinOp, ast.JoinedStr)):
            try:
                v_ = prog.fold(cv.module, n)
            except AnalysisError:
                continue
            if isinstance(v_, str):
                consts.add(v_)
    ctx.check("R5", "[PYTAGNUM]" in consts and "PYTAGNUM" in consts, "_convert_to_pep440 appends [PYTAGNUM] when absent", "v2patterns._convert_to_pep440: PYTAGNUM suffix handling changed", "", loc=cv.loc())
    # the relocation block, as a pipeline of constant string operations, applied to every short token string:
    # afterwards the tag and its number occur exactly once, adjacent, at the end
    blocks = [n for n in walk_no_nested(cv.node) if isinstance(n, ast.If) and "PYTAGNUM" in unparse(n.test) and isinstance(n.test, ast.Compare) and isinstance(n.test.ops[0], ast.NotIn)]
    ctx.require(len(blocks) == 1, "_convert_to_pep440: `if 'PYTAGNUM' not in ...` block not found")
    var = unparse(blocks[0].test.comparators[0])
    steps: T.List[T.Tuple[str, str, str]] = []

    def folded_str(e: T.Optional[ast.AST]) -> T.Optional[str]:          # constants assembled from parts fold to their value
        if e is None:
            return None
        try:
            v_ = prog.fold(cv.module, e)
        except AnalysisError:
            return None
        return v_ if isinstance(v_, str) else None
    for st in blocks[0].body:
        if isinstance(st, ast.Assign) and unparse(st.targets[0]) == var and isinstance(st.value, ast.Call) and isinstance(st.value.func, ast.Attribute) \
                and st.value.func.attr == "replace" and unparse(st.value.func.value) == var and len(st.value.args) == 2 and all(folded_str(a) is not None for a in st.value.args):
            steps.append(("replace", folded_str(st.value.args[0]), folded_str(st.value.args[1])))
        elif isinstance(st, ast.AugAssign) and unparse(st.target) == var and isinstance(st.op, ast.Add) and folded_str(st.value) is not None:
            steps.append(("append", folded_str(st.value), ""))
        elif isinstance(st, ast.Expr) and isinstance(st.value, ast.Constant):
            continue
        else:
            raise AnalysisError(f"C15/R5: statement `{unparse(st)[:60]}` in the PYTAGNUM relocation block is outside the model")
    ctx.floor("R5", "operations in the PYTAGNUM relocation block", len(steps), 3)
    import itertools
    toks = ["X", ".", "-", "[", "]", "PYTAG", "NUM"]
    bad_case = None
    n_cases = 0
    for n in range(1, 6):
        for combo in itertools.product(toks, repeat=n):
            txt = "".join(combo)
            if "PYTAGNUM" in txt or not _balanced(txt) or txt.count("PYTAG") > 1 or txt.count("NUM") > 1:
                continue
            n_cases += 1
            out = txt
            for kind, a, b in steps:
                out = out.replace(a, b) if kind == "replace" else out + a
            if not (out.endswith("[PYTAGNUM]") and out.count("PYTAG") == 1 and out.count("NUM") == 1 and _balanced(out)):
                bad_case = bad_case or (txt, out)
    ctx.notes["pytagnum_cases"] = n_cases
    ctx.check("R5", bad_case is None, f"relocation block: for all {n_cases} short patterns the result ends in [PYTAGNUM] and mentions PYTAG and NUM exactly once",
              "v2patterns._convert_to_pep440: relocating PYTAG/NUM leaves a second tag or number behind",
              f"pattern fragment {bad_case[0]!r} becomes {bad_case[1]!r}" if bad_case else "", loc=cv.loc(blocks[0]), witness=bad_case)
    from checks.c09 import pep440_of_tag_rule
    pep440_of_tag_rule(ctx, "R5")
    from checks.c02 import omission_rule
    omission_rule(ctx, "R5")
    pcf = prog.function("config._parse_config")
    pd = shapes.single_def(pcf, "pep440_version")
    ctx.check("R5", pd is not None and unparse(pd) == "version.to_pep440(current_version)", "_parse_config: pep440_version = to_pep440(current_version)",
              "config._parse_config: pep440_version is not the PEP440 form of current_version", unparse(pd) if pd is not None else "", loc=pcf.loc())
    to_pep440_rule(ctx, "R5")
    printed_pep440_rule(ctx, "R5")
    derived_pattern_eval(ctx, "R5")


def derived_pattern_eval(ctx, rule: str) -> None:
    """v2patterns._convert_to_pep440 evaluated on the README's patterns and on one pattern per zero-padded part: in the derived
    pattern no zero-padded part stands first or right after a dot (a PEP 440 release component has no leading zeros), the text
    has no `v` prefix and no separator other than `.`, and the tag and its number stand once, together, at the end."""
    import re as _re
    from sa.model import CannotFold, EvalError
    prog = ctx.prog
    cv = prog.function("v2patterns._convert_to_pep440")
    fields = prog.const("v2patterns", "PATTERN_PART_FIELDS")
    subs = prog.const("v2patterns", "PEP440_PART_SUBSTITUTIONS")
    padded = sorted(p_ for p_, s_ in subs.items() if p_ not in ("TAG", "PYTAG"))
    names = sorted(fields, key=len, reverse=True)

    def tokens(text: str) -> T.List[T.Tuple[str, int]]:
        out, i = [], 0
        while i < len(text):
            hit = next((n_ for n_ in names if text.startswith(n_, i)), None)
            out.append((hit or text[i], i))
            i += len(hit) if hit else 1
        return out
    stubs = {"re.subn": lambda f, node: _re.subn(*[f(a) for a in node.args]), "re.sub": lambda f, node: _re.sub(*[f(a) for a in node.args])}
    pats = ["vYYYY0M.BUILD[-TAG]", "vYYYY.0M.BUILD[-TAG]", "MAJOR.MINOR.PATCH[-TAGNUM]", "MAJOR.MINOR.PATCH[PYTAGNUM]", "vMAJOR.MINOR.PATCH", "YYYY.0M.0D", "vYYYY.0W.BUILD[-TAG]",
            "YYYY.0M.BUILD[PYTAGNUM]", "0Y.0M.0D.BUILD", "vGGGG.0V.PATCH[-TAG[NUM]]", "YYYY.BUILD[-TAG]"] + [f"vMAJOR.{p_}.PATCH[-TAG]" for p_ in padded] + [f"{p_}.MINOR[PYTAGNUM]" for p_ in padded]
    wrong: T.List[str] = []
    n = 0
    try:
        for pat in pats:
            try:
                got, _ys = prog.run_body(cv, {cv.params[0]: pat, "__strict__": True, "__stubs__": stubs})
            except EvalError as ex:
                got = None
                wrong.append(f"{pat!r}: {ex}")
            n += 1
            if not isinstance(got, str):
                continue
            toks = tokens(got)
            lead = [t_ for t_, i_ in toks if t_ in padded and (i_ == 0 or got[i_ - 1] == ".")]
            stray = sorted(set(_re.findall(r"[^a-zA-Z0-9.!\[\]]", got)))
            tag_ok = [t_ for t_, _i in toks].count("PYTAG") == 1 and [t_ for t_, _i in toks].count("NUM") == 1 and got.rstrip("]").endswith("PYTAGNUM")
            if (lead or stray or got.startswith("v") or not tag_ok) and len(wrong) < 4:
                why = (f"zero-padded {lead} as a dot-separated component" if lead else f"characters {stray}" if stray else "a `v` prefix" if got.startswith("v") else "PYTAG / NUM not once, adjacent, at the end")
                wrong.append(f"{pat!r} -> {got!r}: {why}")
    except (CannotFold, TypeError, AttributeError, KeyError, ValueError, IndexError) as ex:
        ctx.observe(f"{cv.fq} not evaluated ({type(ex).__name__}: {str(ex)[:80]})")
        return
    ctx.check(rule, not wrong, f"_convert_to_pep440: no leading-zero component, no prefix / separators, tag and number once at the end ({n} patterns evaluated)",
              "v2patterns._convert_to_pep440: the derived {pep440_version} pattern keeps a zero-padded component (or a prefix / separator / second tag)",
              "; ".join(wrong[:2]) + ": the text written for {pep440_version} is not the PEP 440 form of the version", loc=cv.loc(), witness={"version_pattern": wrong[0].split(" -> ")[0] if wrong else ""})


def printed_pep440_rule(ctx, rule: str) -> None:
    """What `test` and `show` print as PEP440: `test` prints to_pep440 of the version it announces, `show` prints the
    configuration's pep440_version next to its current_version (and the parts it lists are parsed from that current_version)."""
    prog = ctx.prog

    def labelled(fn, label: str) -> T.List[T.Tuple[ast.Call, T.List[ast.AST]]]:
        out = []

        def pieces(e: ast.AST, text: T.List[str], vals: T.List[ast.AST]) -> None:
            # f-string, `+` concatenation, "...".format(...) and "..." % (...): constant text and the values printed between it
            if isinstance(e, ast.Constant) and isinstance(e.value, str):
                text.append(e.value)
            elif isinstance(e, ast.JoinedStr):
                for v in e.values:
                    pieces(v.value if isinstance(v, ast.FormattedValue) else v, text, vals)
            elif isinstance(e, ast.BinOp) and isinstance(e.op, ast.Add):
                pieces(e.left, text, vals)
                pieces(e.right, text, vals)
            elif isinstance(e, ast.BinOp) and isinstance(e.op, ast.Mod) and const_str(e.left) is not None:
                text.append(const_str(e.left))
                for a in (e.right.elts if isinstance(e.right, ast.Tuple) else [e.right]):
                    pieces(a, text, vals)
            elif isinstance(e, ast.Call) and isinstance(e.func, ast.Attribute) and e.func.attr == "format" and const_str(e.func.value) is not None:
                text.append(const_str(e.func.value))
                for a in list(e.args) + [k.value for k in e.keywords]:
                    pieces(a, text, vals)
            elif isinstance(e, ast.Call) and unparse(e.func) == "str" and len(e.args) == 1:
                pieces(e.args[0], text, vals)
            else:
                vals.append(e)
        for c in walk_no_nested(fn.node):
            if isinstance(c, ast.Call) and unparse(c.func) in ("click.echo", "print") and c.args:
                for line in shapes.printed_texts(fn, c):          # the argument, or each line of a list that the call walks
                    text: T.List[str] = []
                    vals: T.List[ast.AST] = []
                    pieces(line, text, vals)
                    if "".join(text).strip().upper().startswith(label):
                        out.append((c, vals))
        return out
    tf = prog.function("cli.test")
    ctx.visit(tf.fq)
    announced = labelled(tf, "NEW VERSION")
    pep = labelled(tf, "PEP440")
    ctx.floor(rule, "PEP440 lines printed by cli.test", len(pep), 1)
    names = {unparse(v) for _c, vs in announced for v in vs}
    for c, vs in pep:
        srcs = [shapes.resolve_alias(tf, v) for v in vs]
        ok = len(names) == 1 and len(srcs) == 1 and isinstance(srcs[0], ast.Call) and unparse(srcs[0].func).endswith("to_pep440") \
            and [unparse(a) for a in srcs[0].args] == sorted(names) and not srcs[0].keywords
        ctx.check(rule, ok, "cli.test: the PEP440 line prints to_pep440(<the announced version>)", "cli.test: the printed PEP440 value is not the PEP 440 form of the announced version",
                  f"`{unparse(c)[:80]}` prints {[unparse(s_)[:60] for s_ in srcs]}; announced: {sorted(names)}", loc=tf.loc(c), witness={"command": "bumpver test 1.2.3-rc1 'MAJOR.MINOR.PATCH[-TAGNUM]' --tag final"})
    sf = prog.function("cli.show")
    ctx.visit(sf.fq)
    cur = labelled(sf, "CURRENT")
    pep_s = labelled(sf, "PEP440")
    ctx.floor(rule, "PEP440 lines printed by cli.show", len(pep_s), 1)
    objs = {unparse(v.value) for _c, vs in cur for v in vs if isinstance(v, ast.Attribute) and v.attr == "current_version"}
    for c, vs in pep_s:
        ok = len(objs) == 1 and len(vs) == 1 and isinstance(vs[0], ast.Attribute) and vs[0].attr == "pep440_version" and unparse(vs[0].value) in objs
        ctx.check(rule, ok, "cli.show: the PEP440 line prints <cfg>.pep440_version of the configuration whose current_version it prints",
                  "cli.show: the printed PEP440 value is not the configuration's pep440_version", f"`{unparse(c)[:80]}`; current version printed from {sorted(objs)}", loc=sf.loc(c))
    for c, vs in cur:
        ok = len(vs) == 1 and isinstance(vs[0], ast.Attribute) and vs[0].attr == "current_version"
        ctx.check(rule, ok, "cli.show: the current version line prints <cfg>.current_version", "cli.show: the printed current version is not the configuration's current_version", unparse(c)[:80], loc=sf.loc(c))
    for c in walk_no_nested(sf.node):
        if isinstance(c, ast.Call) and unparse(c.func).endswith("parse_version_info"):
            args = [unparse(a) for a in c.args] + [unparse(k.value) for k in c.keywords]
            ok = len(objs) == 1 and args == [f"{o_}.{a_}" for o_ in objs for a_ in ("current_version", "version_pattern")]
            ctx.check(rule, ok, "cli.show: the parts it lists are parsed from (current_version, version_pattern) of the same configuration",
                      "cli.show: the listed parts are not parsed from the configuration's current_version", unparse(c)[:80], loc=sf.loc(c))


def _intersects(r: rl.R, d2: rl.DFA) -> T.Optional[str]:
    """A shortest string in L(r) ∩ L(d2), or None."""
    d1 = rl.to_dfa(r)
    start = (0, 0)
    seen = {start}
    queue = [(start, "")]
    head = 0
    while head < len(queue):
        (a, b), w = queue[head]
        head += 1
        if a in d1.accepting and b in d2.accepting:
            return w
        for ch, na in d1.trans[a].items():
            nb = d2.trans[b].get(ch, -1)
            if nb < 0:
                continue
            if (na, nb) not in seen:
                seen.add((na, nb))
                queue.append(((na, nb), w + ch))
    return None


def _balanced(t: str) -> bool:
    d = 0
    for ch in t:
        if ch == "[":
            d += 1
        elif ch == "]":
            d -= 1
            if d < 0:
                return False
    return d == 0
